(* X86Facts.v — facts about the machine model used by the kernel proofs:
   composition of runs, loads that stay inside the argument or inside its
   pages, and the arithmetic of byte masks (PMOVMSKB / BSF / shifts). *)
From Coq Require Import List ZArith Lia Bool.
From Strcase Require Import Base Spec X86.
From Coq Require Import ZifyBool ZifyNat.
Import ListNotations.
Open Scope Z_scope.
Ltac Zify.zify_post_hook ::= Z.div_mod_to_equations.

(* ---------- running ---------- *)

Section Run.
Variables (A : Z) (s : list Z) (junk : Z -> Z) (slot : Z) (avx2 popcnt : bool) (c : Z) (prog : list instr).
Notation run := (run A s junk slot avx2 popcnt c prog).
Notation step := (step A s junk slot avx2 popcnt c).

Lemma run_S f pc st0 i :
  nth_error prog pc = Some i ->
  run (S f) pc st0 = match step pc i st0 with Running pc' st1 => run f pc' st1 | o => o end.
Proof. intros H. cbn [X86.run]. rewrite H. reflexivity. Qed.

(* a finished run stays finished with more fuel *)
Lemma run_more f g pc st0 r : run f pc st0 = Done r -> run (f + g) pc st0 = Done r.
Proof.
  revert pc st0. induction f as [|f IH]; intros pc st0 H; [discriminate|].
  cbn [X86.run Nat.add] in *. destruct (nth_error prog pc) as [i|]; [|discriminate].
  destruct (step pc i st0) as [pc' st1| | |]; try discriminate; [apply IH; exact H|exact H].
Qed.

Lemma run_trans f g pc st0 pc1 st1 :
  run f pc st0 = Running pc1 st1 -> run (f + g) pc st0 = run g pc1 st1.
Proof.
  revert pc st0. induction f as [|f IH]; intros pc st0 H.
  - cbn in H. inversion H; subst. reflexivity.
  - cbn [X86.run Nat.add] in *. destruct (nth_error prog pc) as [i|]; [|discriminate].
    destruct (step pc i st0) as [pc' st2| | |]; try discriminate. apply IH. exact H.
Qed.

End Run.

(* ---------- masks ---------- *)

(* offset of the first byte >= 0x80, -1 if none: the scalar definition of IndexNonASCII *)
Definition fh (v : list Z) : Z := index_byte_from (fun b => 128 <=? b) v 0.

Lemma fh_nil : fh [] = -1.
Proof. reflexivity. Qed.

Lemma ibf_shift' f l i0 :
  index_byte_from f l i0 = (if index_byte_from f l 0 <? 0 then -1 else i0 + index_byte_from f l 0).
Proof.
  revert i0. induction l as [|b r IH]; intros i0; cbn [index_byte_from]; [reflexivity|].
  destruct (f b); [cbn; lia|]. rewrite (IH (i0 + 1)), (IH (0 + 1)).
  assert (G : forall i, index_byte_from f r i = -1 \/ i <= index_byte_from f r i).
  { clear. induction r as [|x r IHr]; intros i; cbn [index_byte_from]; [left; reflexivity|].
    destruct (f x); [right; lia|]. destruct (IHr (i + 1)); [left; assumption|right; lia]. }
  destruct (G 0) as [E|E]; [rewrite E; reflexivity|].
  replace (index_byte_from f r 0 <? 0) with false by lia. replace (0 + 1 + index_byte_from f r 0 <? 0) with false by lia. lia.
Qed.

Lemma fh_cons b v : fh (b :: v) = if 128 <=? b then 0 else (if fh v <? 0 then -1 else 1 + fh v).
Proof. unfold fh. cbn [index_byte_from]. destruct (128 <=? b); [reflexivity|]. rewrite ibf_shift'. reflexivity. Qed.

Lemma fh_range v : fh v = -1 \/ 0 <= fh v < Z.of_nat (length v).
Proof.
  induction v as [|b v IH]; [left; reflexivity|]. rewrite fh_cons. cbn [length].
  destruct (128 <=? b); [right; lia|]. destruct IH as [E|E]; [rewrite E; left; reflexivity|].
  replace (fh v <? 0) with false by lia. right. lia.
Qed.

Lemma fh_app a b : fh (a ++ b) = if fh a <? 0 then (if fh b <? 0 then -1 else Z.of_nat (length a) + fh b) else fh a.
Proof.
  induction a as [|x a IH]; cbn [app length].
  - rewrite fh_nil. change (-1 <? 0) with true. cbv iota. change (Z.of_nat 0) with 0.
    destruct (fh_range b) as [E|E]; [rewrite E; reflexivity|]. replace (fh b <? 0) with false by lia. lia.
  - rewrite !fh_cons, IH. destruct (128 <=? x); [reflexivity|]. rewrite Nat2Z.inj_succ.
    pose proof (fh_range a) as Ra. pose proof (fh_range b) as Rb.
    destruct (fh a <? 0) eqn:Ca; destruct (fh b <? 0) eqn:Cb;
      repeat match goal with |- context [if ?c <? 0 then _ else _] => destruct (c <? 0) eqn:? end; lia.
Qed.

Lemma movmsk_range v : 0 <= movmsk v < 2 ^ Z.of_nat (length v).
Proof.
  induction v as [|b v IH]; [cbn; lia|]. cbn [movmsk length]. rewrite Nat2Z.inj_succ, Z.pow_succ_r by lia.
  destruct (128 <=? b); lia.
Qed.

Lemma movmsk_app a b : movmsk (a ++ b) = movmsk a + 2 ^ Z.of_nat (length a) * movmsk b.
Proof.
  induction a as [|x a IH]; cbn [app movmsk length]; [lia|]. rewrite IH, Nat2Z.inj_succ, Z.pow_succ_r by lia. ring.
Qed.

Lemma movmsk_zero v : movmsk v = 0 <-> fh v = -1.
Proof.
  induction v as [|b v IH]; [split; reflexivity|]. cbn [movmsk]. rewrite fh_cons.
  pose proof (movmsk_range v) as R. destruct (128 <=? b).
  - split; lia.
  - destruct (fh_range v) as [E|E].
    + pose proof (proj2 IH E) as Z0. rewrite E. change (-1 <? 0) with true. cbv iota. split; [reflexivity|intros _]. lia.
    + replace (fh v <? 0) with false by lia. split; [intros H|lia]. assert (movmsk v = 0) by lia. apply IH in H0. lia.
Qed.

(* the lowest set bit of the mask is the first byte >= 0x80 *)
Lemma bsf_movmsk v : (length v <= 64)%nat -> movmsk v <> 0 -> bsf (movmsk v) = fh v.
Proof.
  intros Hl Hnz. unfold bsf.
  assert (G : forall n v i, (length v <= n)%nat -> movmsk v <> 0 -> bsf_aux n (movmsk v) i = i + fh v).
  { clear. induction n as [|n IH]; intros v i Hl Hnz.
    - destruct v; [cbn in Hnz; congruence|cbn in Hl; lia].
    - destruct v as [|b v]; [cbn in Hnz; congruence|]. cbn [bsf_aux movmsk]. cbn [movmsk] in Hnz. rewrite fh_cons.
      pose proof (movmsk_range v) as R. destruct (128 <=? b) eqn:B.
      + replace (Z.odd (1 + 2 * movmsk v)) with true by (symmetry; rewrite Z.odd_add_mul_2; reflexivity). lia.
      + replace (Z.odd (0 + 2 * movmsk v)) with false by (symmetry; rewrite Z.odd_add_mul_2; reflexivity).
        replace ((0 + 2 * movmsk v) / 2) with (movmsk v) by lia.
        assert (Hv : movmsk v <> 0) by lia.
        rewrite (IH v (i + 1)) by (cbn in Hl; lia || exact Hv).
        destruct (fh_range v) as [E|E]; [apply movmsk_zero in E; congruence|]. replace (fh v <? 0) with false by lia. lia. }
  rewrite (G 64%nat v 0 Hl Hnz). lia.
Qed.

(* ---------- memory ---------- *)

Section Mem.
Variables (A : Z) (s : list Z) (junk : Z -> Z).
Notation len := (X86.len s).
Notation load := (X86.load A s junk).
Notation byte_at := (X86.byte_at A s junk).
Notation readable := (X86.readable A s).

Fixpoint bytes_at (a : Z) (n : nat) : list Z :=
  match n with O => [] | S k => byte_at a :: bytes_at (a + 1) k end.

Lemma bytes_at_length a n : length (bytes_at a n) = n.
Proof. revert a. induction n as [|n IH]; intros a; [reflexivity|]. cbn [bytes_at length]. rewrite IH. reflexivity. Qed.

Lemma bytes_at_app a n m : bytes_at a (n + m) = bytes_at a n ++ bytes_at (a + Z.of_nat n) m.
Proof.
  revert a. induction n as [|n IH]; intros a; [cbn [Nat.add bytes_at app]; f_equal; lia|].
  cbn [Nat.add bytes_at app]. f_equal. rewrite IH. f_equal. f_equal. lia.
Qed.

Lemma load_bytes n : forall a, (forall k, (k < n)%nat -> readable (a + Z.of_nat k) = true) -> load n a = Some (bytes_at a n).
Proof.
  induction n as [|n IH]; intros a H; [reflexivity|]. cbn [X86.load bytes_at].
  pose proof (H 0%nat ltac:(lia)) as H0. rewrite Z.add_0_r in H0. rewrite H0.
  rewrite IH; [reflexivity|]. intros k Hk. specialize (H (S k) ltac:(lia)). rewrite Nat2Z.inj_succ in H.
  replace (a + 1 + Z.of_nat k) with (a + Z.succ (Z.of_nat k)) by lia. exact H.
Qed.

(* the bytes of the argument itself *)
Lemma bytes_at_inside n : forall a, A <= a -> a + Z.of_nat n <= A + len ->
  bytes_at a n = firstn n (skipn (Z.to_nat (a - A)) s).
Proof.
  unfold X86.len. induction n as [|n IH]; intros a Ha Hb; [reflexivity|]. cbn [bytes_at].
  rewrite IH by lia. unfold X86.byte_at, X86.len. replace ((A <=? a) && (a <? A + Z.of_nat (length s))) with true by lia.
  set (k := Z.to_nat (a - A)). replace (Z.to_nat (a + 1 - A)) with (S k) by (unfold k; lia).
  assert (Hk : (k < length s)%nat) by (unfold k; lia).
  clear -Hk. revert s Hk. induction k as [|k IHk]; intros l Hk; (destruct l as [|x l]; [cbn in Hk; lia|]); [reflexivity|].
  cbn [nth skipn]. apply IHk. cbn in Hk. lia.
Qed.

Lemma bytes_at_whole : bytes_at A (length s) = s.
Proof.
  rewrite bytes_at_inside by (unfold X86.len; lia). rewrite Z.sub_diag. cbn [Z.to_nat skipn]. apply firstn_all.
Qed.

(* every address between the first and the last byte of the argument is readable *)
Lemma readable_inside a : A <= a < A + len -> readable a = true.
Proof.
  intros H. unfold X86.readable, X86.page. apply andb_true_iff. split; [apply andb_true_iff; split|]; [lia| |].
  - apply Z.leb_le. apply Z.div_le_mono; lia.
  - apply Z.leb_le. apply Z.div_le_mono; lia.
Qed.

(* so is every address in the 4 KiB page of the first byte (when there is one) *)
Lemma readable_first_page a : 0 < len -> A / 4096 = a / 4096 -> readable a = true.
Proof.
  intros Hl H. unfold X86.readable, X86.page. rewrite <- H. apply andb_true_iff. split; [apply andb_true_iff; split|]; [lia|lia|].
  apply Z.leb_le. apply Z.div_le_mono; lia.
Qed.

End Mem.


(* ---------- chunks ---------- *)

Lemma fh_firstn_prefix (v : list Z) d d' : fh (firstn d v) = -1 -> (d' <= d)%nat -> fh (firstn d' v) = -1.
Proof.
  intros H Hd. replace (firstn d' v) with (firstn d' (firstn d v)) by (rewrite firstn_firstn, Nat.min_l by lia; reflexivity).
  rewrite <- (firstn_skipn d' (firstn d v)) in H. rewrite fh_app in H.
  destruct (fh (firstn d' (firstn d v)) <? 0) eqn:E.
  - destruct (fh_range (firstn d' (firstn d v))); lia.
  - destruct (fh_range (firstn d' (firstn d v))); lia.
Qed.

(* scanning the chunk [off, off+w) after a prefix without a high byte *)
Lemma fh_chunk (v : list Z) off w :
  (off + w <= length v)%nat -> fh (firstn off v) = -1 ->
  let ch := firstn w (skipn off v) in
  (movmsk ch = 0 -> fh (firstn (off + w) v) = -1) /\
  (movmsk ch <> 0 -> fh v = Z.of_nat off + fh ch /\ 0 <= fh ch < Z.of_nat w).
Proof.
  intros Hl Hp. cbv zeta. set (ch := firstn w (skipn off v)).
  assert (E1 : firstn (off + w) v = firstn off v ++ ch) by (unfold ch; apply firstn_add).
  assert (Lc : length ch = w) by (unfold ch; rewrite firstn_length, skipn_length; lia).
  assert (Lo : length (firstn off v) = off) by (rewrite firstn_length; lia).
  split.
  - intros Z0. apply movmsk_zero in Z0. rewrite E1, fh_app, Hp, Z0. reflexivity.
  - intros NZ. assert (Hc : fh ch <> -1) by (intros E; apply movmsk_zero in E; congruence).
    destruct (fh_range ch) as [E|E]; [congruence|]. rewrite Lc in E. split; [|exact E].
    rewrite <- (firstn_skipn (off + w) v), E1, fh_app, fh_app, Hp, Lo.
    change (-1 <? 0) with true. cbv iota. replace (fh ch <? 0) with false by lia.
    replace (Z.of_nat off + fh ch <? 0) with false by lia. reflexivity.
Qed.

Lemma fh_all (v : list Z) : fh (firstn (length v) v) = fh v.
Proof. rewrite firstn_all. reflexivity. Qed.

(* the AVX2 test: (data AND 0x80) compared with 0x80 has the same mask as the data *)
Definition eqmask (x y : Z) : Z := if x =? y then 255 else 0.

Lemma land128 b : 0 <= b < 256 -> Z.land 128 b = if 128 <=? b then 128 else 0.
Proof.
  intros Hb.
  assert (C : forallb (fun x => Z.land 128 x =? (if 128 <=? x then 128 else 0)) (map Z.of_nat (seq 0 256)) = true) by (vm_compute; reflexivity).
  rewrite forallb_forall in C. specialize (C b). apply Z.eqb_eq. apply C.
  apply in_map_iff. exists (Z.to_nat b). split; [lia|]. apply in_seq. lia.
Qed.

Lemma hi_mask data : Forall (fun b => 0 <= b < 256) data ->
  let n := length data in
  let y3 := map2 eqmask (repeat 128 n) (map2 Z.land (repeat 128 n) data) in
  movmsk y3 = movmsk data /\ forallb (fun x => x =? 0) (map2 Z.land y3 y3) = (movmsk data =? 0) /\ length y3 = n.
Proof.
  induction 1 as [|b data Hb Hd IH]; [cbn; auto|].
  cbv zeta in *. cbn [length repeat map2 movmsk forallb]. destruct IH as (I1 & I2 & I3).
  rewrite I1, I2, I3.
  pose proof (land128 b Hb) as Hland.
  rewrite Hland. pose proof (movmsk_range data) as R.
  destruct (128 <=? b) eqn:B.
  - unfold eqmask at 1 2 3. change (128 =? 128) with true. cbv iota. change (128 <=? 255) with true. change (Z.land 255 255) with 255. change (255 =? 0) with false.
    cbn [andb]. repeat split; lia.
  - unfold eqmask at 1 2 3. change (128 =? 0) with false. cbv iota. change (128 <=? 0) with false. change (Z.land 0 0) with 0. change (0 =? 0) with true.
    cbn [andb]. repeat split; try lia.
Qed.

(* ---------- vector registers ---------- *)

Lemma map2_length f a b : length (map2 f a b) = Nat.min (length a) (length b).
Proof. revert b. induction a as [|x a IH]; intros [|y b]; cbn [map2 length]; try reflexivity. rewrite IH. reflexivity. Qed.

Lemma vput_full w lo old : length lo = w -> (length old <= w)%nat -> vput w lo old = lo.
Proof.
  intros H1 H2. unfold vput. rewrite skipn_all2 by exact H2. rewrite app_nil_r. apply firstn_all2. lia.
Qed.

Lemma vlow_full w v : length v = w -> vlow w v = v.
Proof. intros H. unfold vlow. apply firstn_all2. lia. Qed.

Lemma hi_mask32 data : Forall (fun b => 0 <= b < 256) data -> length data = 32%nat ->
  let y3 := map2 eqmask (repeat 128 32) (map2 Z.land (repeat 128 32) data) in
  movmsk y3 = movmsk data /\ forallb (fun x => x =? 0) (map2 Z.land y3 y3) = (movmsk data =? 0) /\ length y3 = 32%nat.
Proof. intros H L. pose proof (hi_mask data H) as M. rewrite L in M. exact M. Qed.

Lemma hd_movd x old : hd 0 (vput 16 (le_bytes4 x ++ repeat 0 12) old) = x mod 256.
Proof. reflexivity. Qed.

Lemma vlow_vput w (v old : list Z) : length v = w -> vlow w (vput w v old) = v.
Proof.
  intros H. unfold vlow, vput. rewrite firstn_app, firstn_firstn, Nat.min_id, firstn_length, H, Nat.min_id, Nat.sub_diag.
  cbn [firstn]. rewrite app_nil_r. apply firstn_all2. lia.
Qed.

Lemma movmsk_small16 (v : list Z) : length v = 16%nat -> movmsk v mod two32 = movmsk v.
Proof. intros H. pose proof (movmsk_range v) as R. rewrite H in R. change (2 ^ Z.of_nat 16) with 65536 in R. unfold two32. lia. Qed.

(* ---------- byte matching through PCMPEQB ---------- *)

(* what PCMPEQB leaves in a lane, as a function of the data byte *)
Definition ind (f : Z -> bool) (b : Z) : Z := if f b then 255 else 0.

Lemma fh_map_ind f v : fh (map (ind f) v) = index_byte_from f v 0.
Proof.
  unfold fh. generalize 0. induction v as [|b v IH]; intros i; [reflexivity|].
  cbn [map index_byte_from]. unfold ind at 1. destruct (f b); [reflexivity|]. change (128 <=? 0) with false. cbv iota. apply IH.
Qed.

Lemma firstn_map2 f n : forall a b, firstn n (map2 f a b) = map2 f (firstn n a) (firstn n b).
Proof.
  induction n as [|n IH]; intros a b; [reflexivity|].
  destruct a as [|x a]; [reflexivity|]. destruct b as [|y b]; [reflexivity|]. cbn [map2 firstn]. rewrite IH. reflexivity.
Qed.

Lemma map2_repeat_l f x : forall data, map2 f (repeat x (length data)) data = map (f x) data.
Proof. induction data as [|b data IH]; [reflexivity|]. cbn [length repeat map2 map]. rewrite IH. reflexivity. Qed.

Lemma vlow_vput_ge w lo old : (w <= length lo)%nat -> vlow w (vput w lo old) = firstn w lo.
Proof.
  intros H. unfold vlow, vput. rewrite firstn_app, firstn_firstn, Nat.min_id, firstn_length, Nat.min_l by exact H.
  rewrite Nat.sub_diag. cbn [firstn]. apply app_nil_r.
Qed.

Lemma vlow_length_ge w v x : vlow w v = repeat x w -> (w <= length v)%nat.
Proof. intros H. assert (L : length (vlow w v) = w) by (rewrite H; apply repeat_length). unfold vlow in L. rewrite firstn_length in L. lia. Qed.

(* PCMPEQB X0, X1 after MOVOU: the low 16 lanes of the result *)
Lemma cmp_low16 cc x0 x1 data old :
  vlow 16 x0 = repeat cc 16 -> length data = 16%nat ->
  vlow 16 (vput 16 (map2 (fun x y => if x =? y then 255 else 0) x0 (vput 16 data x1)) old) = map (ind (Z.eqb cc)) data.
Proof.
  intros H0 L. pose proof (vlow_length_ge 16 x0 cc H0) as L0.
  rewrite vlow_vput_ge.
  - rewrite firstn_map2. fold (vlow 16 x0). fold (vlow 16 (vput 16 data x1)). rewrite H0, (vlow_vput 16 data x1 L).
    rewrite <- L at 1. apply (map2_repeat_l (fun x y => if x =? y then 255 else 0) cc data).
  - rewrite map2_length. unfold vput. rewrite app_length, firstn_length, L. lia.
Qed.

(* POR X2, X1 then PCMPEQB X0, X1 after MOVOU: the case-insensitive variant *)
Lemma cmp_or_low16 cc x0 x1 x2 data old :
  vlow 16 x0 = repeat cc 16 -> vlow 16 x2 = repeat 32 16 -> length data = 16%nat ->
  vlow 16 (vput 16 (map2 (fun x y => if x =? y then 255 else 0) x0
                      (vput 16 (map2 Z.lor x2 (vput 16 data x1)) (vput 16 data x1))) old)
  = map (ind (fun b => cc =? Z.lor 32 b)) data.
Proof.
  intros H0 H2 L. pose proof (vlow_length_ge 16 x0 cc H0) as L0. pose proof (vlow_length_ge 16 x2 32 H2) as L2.
  assert (Lp : (16 <= length (vput 16 data x1))%nat) by (unfold vput; rewrite app_length, firstn_length, L; lia).
  assert (E1 : vlow 16 (vput 16 (map2 Z.lor x2 (vput 16 data x1)) (vput 16 data x1)) = map (Z.lor 32) data).
  { rewrite vlow_vput_ge by (rewrite map2_length; lia).
    rewrite firstn_map2. fold (vlow 16 x2). fold (vlow 16 (vput 16 data x1)). rewrite H2, (vlow_vput 16 data x1 L).
    rewrite <- L at 1. apply (map2_repeat_l Z.lor 32 data). }
  rewrite vlow_vput_ge.
  - rewrite firstn_map2. fold (vlow 16 x0). fold (vlow 16 (vput 16 (map2 Z.lor x2 (vput 16 data x1)) (vput 16 data x1))).
    rewrite H0, E1. rewrite <- (map_length (Z.lor 32) data) in L. rewrite <- L at 1.
    rewrite (map2_repeat_l (fun x y => if x =? y then 255 else 0) cc (map (Z.lor 32) data)). rewrite map_map. reflexivity.
  - rewrite map2_length. unfold vput at 1. rewrite app_length, firstn_length, map2_length. lia.
Qed.

(* the byte broadcast MOVD; PUNPCKLBW; PUNPCKLBW; PSHUFL $0 *)
Definition bcast16 (x : Z) (old : list Z) : list Z :=
  let a := vput 16 (le_bytes4 x ++ repeat 0 12) old in
  let b := vput 16 (interleave (firstn 8 a) (firstn 8 a)) a in
  let c := vput 16 (interleave (firstn 8 b) (firstn 8 b)) b in
  vput 16 (firstn 4 c ++ firstn 4 c ++ firstn 4 c ++ firstn 4 c) c.

Lemma bcast16_low x old : vlow 16 (bcast16 x old) = repeat (x mod 256) 16.
Proof. reflexivity. Qed.

(* ---------- conditions ---------- *)

Lemma signed64_small a : 0 <= a < two63 -> signed64 a = a.
Proof. intros H. unfold signed64. replace (a <? two63) with true by lia. reflexivity. Qed.

Lemma holds_cmp_LT a b : 0 <= a < two63 -> 0 <= b < two63 -> holds (cmp_flags a b signed64) cLT = Some (a <? b).
Proof. intros Ha Hb. unfold holds, cmp_flags. cbn [lt]. rewrite !signed64_small by assumption. reflexivity. Qed.
Lemma holds_cmp_LE a b : 0 <= a < two63 -> 0 <= b < two63 -> holds (cmp_flags a b signed64) cLE = Some (a <=? b).
Proof. intros Ha Hb. unfold holds, cmp_flags. cbn [lt zf o2]. rewrite !signed64_small by assumption. f_equal. lia. Qed.
Lemma holds_cmp_A a b sg : holds (cmp_flags a b sg) cA = Some (b <? a).
Proof. unfold holds, cmp_flags. cbn [cf zf o2 option_map]. f_equal. lia. Qed.
Lemma holds_cmp_AE a b sg : holds (cmp_flags a b sg) cAE = Some (b <=? a).
Proof. unfold holds, cmp_flags. cbn [cf option_map]. f_equal. lia. Qed.
Lemma holds_cmp_B a b sg : holds (cmp_flags a b sg) cB = Some (a <? b).
Proof. reflexivity. Qed.
Lemma holds_cmp_BE a b sg : holds (cmp_flags a b sg) cBE = Some (a <=? b).
Proof. unfold holds, cmp_flags. cbn [cf zf o2]. f_equal. lia. Qed.
Lemma holds_cmp_E a b sg : holds (cmp_flags a b sg) cE = Some (a =? b).
Proof. reflexivity. Qed.
Lemma holds_cmp_NE a b sg : holds (cmp_flags a b sg) cNE = Some (negb (a =? b)).
Proof. reflexivity. Qed.

(* ---------- page-offset test and the mask shifts of the small paths ---------- *)

(* TESTW $0xff0, x is zero exactly when x lies in the first 16 bytes of a 4 KiB page *)
Lemma land4080 x : 0 <= x -> Z.land 4080 x = 16 * ((x / 16) mod 256).
Proof.
  intros Hx. apply Z.bits_inj'. intros k Hk. rewrite Z.land_spec.
  change 16 with (2 ^ 4) at 1. rewrite (Z.mul_comm (2 ^ 4)).
  destruct (Z_lt_le_dec k 4) as [Lo|Hi].
  - rewrite Z.mul_pow2_bits_low by lia.
    replace (Z.testbit 4080 k) with false; [reflexivity|].
    assert (k = 0 \/ k = 1 \/ k = 2 \/ k = 3) as [->|[->|[->| ->]]] by lia; reflexivity.
  - rewrite Z.mul_pow2_bits by lia. change 256 with (2 ^ 8). change 16 with (2 ^ 4).
    destruct (Z_lt_le_dec (k - 4) 8) as [In|Out].
    + rewrite Z.mod_pow2_bits_low by lia. rewrite Z.div_pow2_bits by lia. replace (k - 4 + 4) with k by lia.
      replace (Z.testbit 4080 k) with true; [reflexivity|].
      assert (k = 4 \/ k = 5 \/ k = 6 \/ k = 7 \/ k = 8 \/ k = 9 \/ k = 10 \/ k = 11) as [->|[->|[->|[->|[->|[->|[->| ->]]]]]]] by lia; reflexivity.
    + rewrite Z.mod_pow2_bits_high by lia.
      replace (Z.testbit 4080 k) with false; [reflexivity|].
      symmetry. apply (Z.bits_above_log2 4080 k); [lia|]. change (Z.log2 4080) with 11. lia.
Qed.

Lemma testw_page x : 0 <= x -> (Z.land 4080 x mod 65536 =? 0) = (x mod 4096 <? 16).
Proof. intros Hx. rewrite land4080 by exact Hx. lia. Qed.

(* SHLL len; SHRL 16 on the mask of [16-len junk bytes ++ the len bytes of s] leaves the mask of s *)
Lemma shift_out_junk (mj ms : Z) (n : nat) :
  (1 <= n <= 15)%nat -> 0 <= mj < 2 ^ Z.of_nat (16 - n) -> 0 <= ms < 2 ^ Z.of_nat n ->
  (((mj + 2 ^ Z.of_nat (16 - n) * ms) mod two32) * 2 ^ (Z.of_nat n mod 32) mod two32) mod two32 / 2 ^ (16 mod 32) = ms.
Proof.
  intros Hn Hj Hs. set (P := 2 ^ Z.of_nat n) in *. set (Q := 2 ^ Z.of_nat (16 - n)) in *.
  assert (HPQ : Q * P = 65536).
  { unfold P, Q. rewrite <- Z.pow_add_r by lia. replace (Z.of_nat (16 - n) + Z.of_nat n) with 16 by lia. reflexivity. }
  assert (HP : 2 <= P <= 32768).
  { unfold P. split.
    - change 2 with (2 ^ 1). apply Z.pow_le_mono_r; lia.
    - change 32768 with (2 ^ 15). apply Z.pow_le_mono_r; lia. }
  assert (HQ : 2 <= Q <= 32768).
  { unfold Q. split.
    - change 2 with (2 ^ 1). apply Z.pow_le_mono_r; lia.
    - change 32768 with (2 ^ 15). apply Z.pow_le_mono_r; lia. }
  replace (Z.of_nat n mod 32) with (Z.of_nat n) by lia. fold P. change (16 mod 32) with 16. change (2 ^ 16) with 65536.
  assert (Hm : 0 <= mj + Q * ms < 65536) by nia.
  unfold two32. rewrite (Z.mod_small (mj + Q * ms)) by lia.
  assert (E : (mj + Q * ms) * P = mj * P + ms * 65536) by (rewrite <- HPQ; ring).
  assert (Hb : 0 <= mj * P < 65536) by nia.
  rewrite E. rewrite (Z.mod_small (mj * P + ms * 65536)) by nia. rewrite Z.mod_small by nia.
  rewrite Z.div_add by lia. rewrite Z.div_small by lia. lia.
Qed.

(* VPCMPEQB Y1, Y2, Y3 with Y1 a broadcast byte and Y2 the 32 bytes just loaded *)
Lemma cmp32 cc data x3 : length data = 32%nat -> (length x3 <= 32)%nat ->
  vput 32 (map2 (fun x y => if x =? y then 255 else 0) (repeat cc 32) data) x3 = map (ind (Z.eqb cc)) data.
Proof.
  intros L H3. replace (repeat cc 32) with (repeat cc (length data)) by (rewrite L; reflexivity).
  rewrite (map2_repeat_l (fun x y => if x =? y then 255 else 0) cc data).
  apply vput_full; [rewrite map_length; exact L|exact H3].
Qed.

(* VPOR Y4, Y2, Y2 then VPCMPEQB Y1, Y2, Y3: the case-insensitive variant *)
Lemma cmp_or32 cc data x3 : length data = 32%nat -> (length x3 <= 32)%nat ->
  vput 32 (map2 (fun x y => if x =? y then 255 else 0) (repeat cc 32) (map (Z.lor 32) data)) x3 = map (ind (fun b => cc =? Z.lor 32 b)) data.
Proof.
  intros L H3. replace (repeat cc 32) with (repeat cc (length (map (Z.lor 32) data))) by (rewrite map_length, L; reflexivity).
  rewrite (map2_repeat_l (fun x y => if x =? y then 255 else 0) cc (map (Z.lor 32) data)), map_map.
  apply vput_full; [rewrite map_length; exact L|exact H3].
Qed.

Lemma or32 data old : length data = 32%nat -> (length old <= 32)%nat ->
  vput 32 (map2 Z.lor (repeat 32 32) data) old = map (Z.lor 32) data.
Proof.
  intros L H3. replace (repeat 32 32) with (repeat 32 (length data)) by (rewrite L; reflexivity).
  rewrite (map2_repeat_l Z.lor 32 data).
  apply vput_full; [rewrite map_length; exact L|exact H3].
Qed.

(* the byte broadcast MOVQ CX, X2; PUNPCKLBW; PUNPCKLBW; PSHUFL $0 *)
Definition bcast16q (x : Z) (old : list Z) : list Z :=
  let a := vput 16 (le_bytes4 (x mod two32) ++ le_bytes4 (x / two32) ++ repeat 0 8) old in
  let b := vput 16 (interleave (firstn 8 a) (firstn 8 a)) a in
  let c := vput 16 (interleave (firstn 8 b) (firstn 8 b)) b in
  vput 16 (firstn 4 c ++ firstn 4 c ++ firstn 4 c ++ firstn 4 c) c.

Lemma bcast16q_low x old : vlow 16 (bcast16q x old) = repeat ((x mod two32) mod 256) 16.
Proof. reflexivity. Qed.

Lemma vput_length_le w lo old n : (w <= n)%nat -> (length old <= n)%nat -> (length (vput w lo old) <= n)%nat.
Proof. intros H1 H2. unfold vput. rewrite app_length, firstn_length, skipn_length. lia. Qed.

Lemma bcast16_length x old : (length old <= 32)%nat -> (length (bcast16 x old) <= 32)%nat.
Proof. intros H. unfold bcast16. cbv zeta. repeat (apply vput_length_le; [lia|]). exact H. Qed.

Lemma bcast16q_length x old : (length old <= 32)%nat -> (length (bcast16q x old) <= 32)%nat.
Proof. intros H. unfold bcast16q. cbv zeta. repeat (apply vput_length_le; [lia|]). exact H. Qed.

Lemma hd_vlow16 v x : vlow 16 v = repeat x 16 -> hd 0 v = x.
Proof. unfold vlow. destruct v as [|y v]; cbn [firstn repeat hd]; intros H; [discriminate|]. congruence. Qed.

(* the low byte of an OR *)
Lemma lor_low8 a b : Z.lor a b mod 256 = Z.lor (a mod 256) (b mod 256).
Proof.
  change 256 with (2 ^ 8). rewrite <- !Z.land_ones by lia. apply Z.land_lor_distr_l.
Qed.

(* SHLL len; SHRL $16 on the mask of [16-len stray lanes ++ the len lanes of t] leaves the mask of t *)
Lemma shift_mask_gen (J t : list Z) : (1 <= length t <= 15)%nat -> length J = (16 - length t)%nat ->
  ((movmsk (J ++ t) mod two32 * 2 ^ (Z.of_nat (length t) mod two32 mod 32) mod two32) mod two32 / 2 ^ (16 mod two64 mod 32)) mod two32 = movmsk t.
Proof.
  intros Hl LJ0. set (n := length t) in *.
  pose proof (movmsk_range t) as Rs. fold n in Rs. pose proof (movmsk_range J) as RJ. rewrite LJ0 in RJ.
  assert (Emsk : movmsk (J ++ t) = movmsk J + 2 ^ Z.of_nat (16 - n) * movmsk t) by (rewrite movmsk_app, LJ0; reflexivity).
  change (16 mod two64) with 16. replace (Z.of_nat n mod two32) with (Z.of_nat n) by (unfold two32; lia).
  rewrite Emsk. clear Emsk. rewrite (shift_out_junk (movmsk J) (movmsk t) n) by lia.
  assert (H15 : 2 ^ Z.of_nat n <= 2 ^ 15) by (apply Z.pow_le_mono_r; lia). change (2 ^ 15) with 32768 in H15.
  apply Z.mod_small. unfold two32. lia.
Qed.

