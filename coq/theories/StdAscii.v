(* StdAscii.v — C20, ASCII class: for ASCII-only arguments every function of
   Spec equals the byte-exact model of its strings/bytes namesake applied to
   the ASCII-lower-cased arguments, positions being positions in the
   original (lower-casing preserves length). *)
From Strcase Require Import Base Utf8 Utf8Facts Spec SpecFacts SpecIndex SpecAffix Fold FoldFacts FoldTables FoldFacts121.
From Coq Require Import ZifyBool ZifyNat.

(* byte-exact models of the namesakes (validated against strings/bytes by the harness) *)
Definition std_index (s t : bytes) : Z :=
  match find_first t s 0 with Some k => Z.of_nat k | None => -1 end.
Definition std_last_index (s t : bytes) : Z :=
  match find_last t s 0 with Some k => Z.of_nat k | None => -1 end.
Definition std_contains (s t : bytes) : bool := 0 <=? std_index s t.
Definition std_has_prefix (s t : bytes) : bool := prefixb t s.
Definition std_has_suffix (s t : bytes) : bool := suffixb t s.
Definition std_compare (s t : bytes) : Z := bytes_compare s t.
Definition std_trim_prefix (s t : bytes) : Z * Z := if prefixb t s then (len t, len s) else (0, len s).
Definition std_trim_suffix (s t : bytes) : Z * Z := if suffixb t s then (0, len s - len t) else (0, len s).
Definition std_count (s t : bytes) : Z :=
  match t with [] => Z.of_nat (rune_count s) + 1 | _ => Z.of_nat (count_aux t s 0) end.
Definition std_cut (s t : bytes) : (Z * Z) * (Z * Z) * bool :=
  match find_first t s 0 with
  | Some k => ((0, Z.of_nat k), (Z.of_nat k + len t, len s), true)
  | None => ((0, len s), (0, 0), false)
  end.

Definition ascii (s : bytes) : Prop := Forall (fun b => 0 <= b < 128) s.
Definition lower (s : bytes) : bytes := map lower_ascii s.

Lemma ascii_lt s : ascii s -> Forall (fun b => b < 128) s.
Proof. intros H. eapply Forall_impl; [|exact H]. cbv beta. intros; lia. Qed.

Lemma key_ascii_lower s : ascii s -> key fold121 s = lower s.
Proof.
  intros H. rewrite key_all_ascii by (apply ascii_lt; exact H). unfold lower.
  apply map_ext_in. intros b Hb. apply fold_ascii. eapply Forall_forall in H; eassumption.
Qed.

Lemma segs_ascii_all s : ascii s -> segs s = map (fun b => (b, 1%nat)) s.
Proof.
  induction s as [|b s IH]; intros H; [reflexivity|]. inversion H; subst.
  rewrite segs_ascii by lia. cbn [map]. f_equal. apply IH. assumption.
Qed.

Lemma off_ascii s k : ascii s -> (k <= length s)%nat -> off s k = k.
Proof.
  intros H. unfold off, widths. rewrite segs_ascii_all by exact H. rewrite map_map. cbn [snd].
  revert k. clear H. induction s as [|b s IH]; intros k Hk.
  - simpl in Hk. destruct k; [reflexivity|lia].
  - destruct k as [|k]; [reflexivity|]. cbn [map firstn sum_nat fold_right]. 
    fold (sum_nat (firstn k (map (fun _ : Z => 1%nat) s))). rewrite IH by (simpl in Hk; lia). reflexivity.
Qed.

Lemma rune_count_ascii s : ascii s -> rune_count s = length s.
Proof. intros H. unfold rune_count. rewrite segs_ascii_all by exact H. apply map_length. Qed.

Lemma lower_length s : length (lower s) = length s.
Proof. apply map_length. Qed.

Section A.
Variables s t : bytes.
Hypothesis Hs : ascii s.
Hypothesis Ht : ascii t.

Theorem ascii_compare : compare fold121 s t = std_compare (lower s) (lower t).
Proof. unfold compare, std_compare. rewrite !key_ascii_lower by assumption. apply lex_bytes_compare. Qed.

Theorem ascii_index : index fold121 s t = std_index (lower s) (lower t).
Proof.
  unfold index, std_index. rewrite !key_ascii_lower by assumption.
  destruct (find_first (lower t) (lower s) 0) as [k|] eqn:F; cbn [offz]; [|reflexivity].
  apply find_first_some in F as (d & -> & Hd & _). cbn [Nat.add]. rewrite lower_length in Hd.
  rewrite off_ascii by assumption. reflexivity.
Qed.

Theorem ascii_contains : contains fold121 s t = std_contains (lower s) (lower t).
Proof. unfold contains, std_contains. rewrite ascii_index. reflexivity. Qed.

Theorem ascii_last_index : last_index fold121 s t = std_last_index (lower s) (lower t).
Proof.
  unfold last_index, std_last_index. rewrite !key_ascii_lower by assumption.
  destruct (find_last (lower t) (lower s) 0) as [k|] eqn:F; cbn [offz]; [|reflexivity].
  apply find_last_some in F as (d & -> & Hd & _). cbn [Nat.add]. rewrite lower_length in Hd.
  rewrite off_ascii by assumption. reflexivity.
Qed.

Theorem ascii_has_prefix : has_prefix fold121 s t = std_has_prefix (lower s) (lower t).
Proof. unfold has_prefix, std_has_prefix. rewrite !key_ascii_lower by assumption. reflexivity. Qed.

Theorem ascii_has_suffix : has_suffix fold121 s t = std_has_suffix (lower s) (lower t).
Proof. unfold has_suffix, std_has_suffix. rewrite !key_ascii_lower by assumption. reflexivity. Qed.

Theorem ascii_trim_prefix : trim_prefix fold121 s t = std_trim_prefix (lower s) (lower t).
Proof.
  unfold trim_prefix, std_trim_prefix. rewrite ascii_has_prefix. unfold std_has_prefix.
  destruct (prefixb (lower t) (lower s)) eqn:P; unfold len; rewrite !lower_length; [|reflexivity].
  rewrite key_ascii_lower, lower_length by assumption.
  apply prefixb_length in P. rewrite !lower_length in P. rewrite off_ascii by assumption. reflexivity.
Qed.

Theorem ascii_trim_suffix : trim_suffix fold121 s t = std_trim_suffix (lower s) (lower t).
Proof.
  unfold trim_suffix, std_trim_suffix, suffix_cut. rewrite ascii_has_suffix. unfold std_has_suffix.
  destruct (suffixb (lower t) (lower s)) eqn:P; unfold len; rewrite !lower_length; [|reflexivity].
  rewrite !key_ascii_lower, !lower_length by assumption.
  apply suffixb_skipn in P as [P _]. rewrite !lower_length in P. rewrite off_ascii by (assumption || lia).
  f_equal. lia.
Qed.

Theorem ascii_count : count fold121 s t = std_count (lower s) (lower t).
Proof.
  unfold count, std_count. destruct t as [|b r]; cbn [lower map].
  - rewrite !rune_count_ascii, lower_length; [reflexivity| |assumption].
    unfold ascii, lower. apply Forall_forall. intros x Hx. apply in_map_iff in Hx as (y & <- & Hy).
    eapply Forall_forall in Hs; [|exact Hy]. unfold lower_ascii. destruct ((65 <=? y) && (y <=? 90)) eqn:E; lia.
  - rewrite !key_ascii_lower by assumption. reflexivity.
Qed.

Theorem ascii_cut : cut fold121 s t = std_cut (lower s) (lower t).
Proof.
  unfold cut, std_cut. rewrite !key_ascii_lower by assumption.
  destruct (find_first (lower t) (lower s) 0) as [k|] eqn:F; unfold len; rewrite !lower_length; [|reflexivity].
  apply find_first_some in F as (d & -> & Hd & Hm & _). cbn [Nat.add] in *. rewrite lower_length in Hd.
  apply prefixb_length in Hm. rewrite skipn_length, !lower_length in Hm.
  rewrite !off_ascii by (assumption || lia). repeat f_equal. lia.
Qed.

End A.
