(* X86IsaInst.v — X86Isa.strict_from_entry at the translated kernels: from each exported entry point of the three
   amd64 assembly files (go1.22+ and pre-1.22 file sets, default preprocessing), for every setting of the two
   feature flags, every argument, register file, memory and fuel, the processor that faults on AVX2 / POPCNT
   instructions whose flag is false behaves exactly as the permissive one.  The closure sets are computed and
   checked by evaluation (at most 251 abstract states).  The GOAMD64=v3 preprocessing has no run-time tests and is
   only ever run on processors with both features, where nothing is forbidden. *)
From Coq Require Import List ZArith Bool.
From Strcase Require Import Base X86 X86Isa.
From StrcaseGen Require Import AsmProg.
Import ListNotations.

Ltac isa := intros A s junk slot avx2 popcnt c; destruct avx2, popcnt; apply strict_from_entry; vm_compute; reflexivity.

Definition no_unavailable_instruction (prog : list instr) (entry : nat) : Prop :=
  forall A s junk slot avx2 popcnt c fuel st0,
    run_strict A s junk slot avx2 popcnt c prog fuel entry st0 = X86.run A s junk slot avx2 popcnt c prog fuel entry st0.

Theorem isa_index_byte_str : no_unavailable_instruction prog_indexbyte_go122_amd64 entry_indexbyte_go122_amd64_IndexByteString.
Proof. unfold no_unavailable_instruction. isa. Qed.
Theorem isa_index_byte_byt : no_unavailable_instruction prog_indexbyte_go122_amd64 entry_indexbyte_go122_amd64_IndexByte.
Proof. unfold no_unavailable_instruction. isa. Qed.
Theorem isa_count_str : no_unavailable_instruction prog_count_go122_amd64 entry_count_go122_amd64_CountString.
Proof. unfold no_unavailable_instruction. isa. Qed.
Theorem isa_count_byt : no_unavailable_instruction prog_count_go122_amd64 entry_count_go122_amd64_Count.
Proof. unfold no_unavailable_instruction. isa. Qed.
Theorem isa_index_non_ascii_str : no_unavailable_instruction prog_index_non_ascii_go122_amd64 entry_index_non_ascii_go122_amd64_IndexNonASCII.
Proof. unfold no_unavailable_instruction. isa. Qed.
Theorem isa_index_non_ascii_byt : no_unavailable_instruction prog_index_non_ascii_go122_amd64 entry_index_non_ascii_go122_amd64_IndexByteNonASCII.
Proof. unfold no_unavailable_instruction. isa. Qed.

(* the pre-1.22 file set *)
Theorem isa_index_byte_str_pre122 : no_unavailable_instruction prog_indexbyte_amd64 entry_indexbyte_amd64_IndexByteString.
Proof. unfold no_unavailable_instruction. isa. Qed.
Theorem isa_index_byte_byt_pre122 : no_unavailable_instruction prog_indexbyte_amd64 entry_indexbyte_amd64_IndexByte.
Proof. unfold no_unavailable_instruction. isa. Qed.
Theorem isa_count_str_pre122 : no_unavailable_instruction prog_count_amd64 entry_count_amd64_CountString.
Proof. unfold no_unavailable_instruction. isa. Qed.
Theorem isa_count_byt_pre122 : no_unavailable_instruction prog_count_amd64 entry_count_amd64_Count.
Proof. unfold no_unavailable_instruction. isa. Qed.
Theorem isa_index_non_ascii_str_pre122 : no_unavailable_instruction prog_index_non_ascii_amd64 entry_index_non_ascii_amd64_IndexNonASCII.
Proof. unfold no_unavailable_instruction. isa. Qed.
Theorem isa_index_non_ascii_byt_pre122 : no_unavailable_instruction prog_index_non_ascii_amd64 entry_index_non_ascii_amd64_IndexByteNonASCII.
Proof. unfold no_unavailable_instruction. isa. Qed.

(* with both features present nothing is forbidden, whatever the program (the GOAMD64=v3 case) *)
Theorem isa_all_features A s junk slot c prog fuel : forall pc st0,
  run_strict A s junk slot true true c prog fuel pc st0 = X86.run A s junk slot true true c prog fuel pc st0.
Proof.
  induction fuel as [|f IH]; intros pc st0; [reflexivity|]. cbn [run_strict X86.run].
  destruct (nth_error prog pc) as [i|]; [|reflexivity]. unfold forbidden. cbn [negb andb orb].
  destruct (X86.step A s junk slot true true c pc i st0); try reflexivity. apply IH.
Qed.
