(* Refine_Compare.v — Impl.Compare / Impl.EqualFold refine Spec for both
   package shapes, on all well-formed byte lists (valid UTF-8 or not). *)
From Strcase Require Import Base Utf8 Spec SpecFacts Impl.
From Coq Require Import ZifyBool ZifyNat.

(* what the string proofs need to know about the fold function and the
   _lower table; proved for the regenerated tables in FoldFacts121.v *)
Record fold_facts (fold lower : Z -> Z) : Prop := {
  ff_idem : forall r, 0 <= r <= MaxRune -> fold (fold r) = fold r;
  ff_lower : forall b, 0 <= b < 128 -> lower b = fold b
}.

Section Refine.
Variables fold lower : Z -> Z.
Hypothesis FF : fold_facts fold lower.

Notation key := (key fold).

Lemma key_nil : key [] = [].
Proof. reflexivity. Qed.

Lemma key_cons b s :
  key (b :: s) = fold (fst (decode (b :: s))) :: key (skipn (snd (decode (b :: s))) (b :: s)).
Proof. unfold Spec.key. rewrite segs_cons. reflexivity. Qed.

Lemma key_ascii b s : b < 128 -> key (b :: s) = fold b :: key s.
Proof. intros H. unfold Spec.key. rewrite segs_ascii by assumption. reflexivity. Qed.

Lemma key_nonempty b s : key (b :: s) <> [].
Proof. rewrite key_cons. discriminate. Qed.

Lemma skipn_decode_length b s :
  (length (skipn (snd (decode (b :: s))) (b :: s)) < length (b :: s))%nat.
Proof. rewrite skipn_length. pose proof (decode_width_pos b s). cbn [length] in *. lia. Qed.

(* next_folded yields the head of the key and the rest of the string *)
Lemma next_folded_key b s :
  wf (b :: s) ->
  exists k rest, next_folded fold lower (b :: s) = (k, rest) /\
    key (b :: s) = k :: key rest /\ fold k = k /\
    (length rest < length (b :: s))%nat /\
    rest = skipn (snd (decode (b :: s))) (b :: s).
Proof.
  intros Hwf. assert (Hb : 0 <= b < 256) by (inversion Hwf; assumption).
  unfold next_folded. destruct (b <? 128) eqn:E.
  - exists (lower b), s. rewrite key_ascii by lia. rewrite (ff_lower _ _ FF) by lia.
    rewrite (ff_idem _ _ FF) by (unfold MaxRune; lia). rewrite decode_ascii by lia. cbn [snd skipn length].
    repeat split; lia.
  - eexists _, _. split; [reflexivity|]. rewrite key_cons.
    rewrite (ff_idem _ _ FF) by (apply decode_rune_range; exact Hwf).
    repeat split. apply skipn_decode_length.
Qed.

Lemma wf_cons_inv b s : wf (b :: s) -> 0 <= b < 256 /\ wf s.
Proof. intros H. inversion H; subst. split; assumption. Qed.

Lemma lex_nil_l l : lex [] l = match l with [] => 0 | _ => -1 end.
Proof. destruct l; reflexivity. Qed.

Lemma compare_runes_byt_ok fuel s t :
  wf s -> wf t -> (length s < fuel)%nat ->
  compare_runes_byt fold lower fuel s t = Ok (lex (key s) (key t)).
Proof.
  revert s t. induction fuel as [|f IH]; intros s t Hs Ht Hf; [lia|].
  cbn [compare_runes_byt].
  destruct s as [|b s].
  { rewrite key_nil, lex_nil_l. destruct t as [|c t]; [reflexivity|].
    pose proof (key_nonempty c t). destruct (key (c :: t)); [congruence|reflexivity]. }
  destruct t as [|c t].
  { rewrite key_nil. pose proof (key_nonempty b s). destruct (key (b :: s)); [congruence|reflexivity]. }
  apply wf_cons_inv in Hs as Hs'. destruct Hs' as [Hb Hs'].
  apply wf_cons_inv in Ht as Ht'. destruct Ht' as [Hc Ht'].
  destruct (next_folded_key b s Hs) as (k1 & r1 & E1 & K1 & I1 & L1 & R1).
  destruct (next_folded_key c t Ht) as (k2 & r2 & E2 & K2 & I2 & L2 & R2).
  rewrite E1, E2, K1, K2. cbn [lex]. rewrite I1.
  rewrite orb_diag.
  destruct (k1 =? k2) eqn:E; [|reflexivity].
  apply IH.
  - subst r1. apply wf_skipn. assumption.
  - subst r2. apply wf_skipn. assumption.
  - cbn [length] in *. lia.
Qed.

Lemma compare_runes_str_ok fuel s t :
  wf s -> wf t -> (length s < fuel)%nat ->
  compare_runes_str fold lower fuel s t = Ok (lex (key s) (key t)).
Proof.
  revert s t. induction fuel as [|f IH]; intros s t Hs Ht Hf; [lia|].
  cbn [compare_runes_str].
  destruct s as [|b s].
  { rewrite key_nil, lex_nil_l. destruct t as [|c t]; [reflexivity|].
    pose proof (key_nonempty c t). destruct (key (c :: t)); [congruence|reflexivity]. }
  destruct t as [|c t].
  { rewrite key_nil. pose proof (key_nonempty b s). destruct (key (b :: s)); [congruence|reflexivity]. }
  apply wf_cons_inv in Ht as Ht'. destruct Ht' as [Hc Ht'].
  destruct (next_folded_key c t Ht) as (k2 & r2 & E2 & K2 & I2 & L2 & R2).
  rewrite E2, K2, key_cons. cbn [lex].
  set (r := fst (decode (b :: s))).
  assert (Hcond : ((r =? k2) || (fold r =? k2)) = (fold r =? k2)).
  { destruct (r =? k2) eqn:E; [|reflexivity]. apply Z.eqb_eq in E. rewrite E, I2. simpl. symmetry. apply Z.eqb_refl. }
  rewrite Hcond. destruct (fold r =? k2) eqn:E; [|reflexivity].
  apply IH.
  - apply wf_skipn. assumption.
  - subst r2. apply wf_skipn. assumption.
  - pose proof (skipn_decode_length b s). cbn [length] in *. lia.
Qed.

Lemma compare_runes_ok p fuel s t :
  wf s -> wf t -> (length s < fuel)%nat ->
  compare_runes fold lower p fuel s t = Ok (lex (key s) (key t)).
Proof. destruct p; [apply compare_runes_str_ok|apply compare_runes_byt_ok]. Qed.

Lemma len_cons b (s : bytes) : len (b :: s) = len s + 1.
Proof. unfold len. cbn [length]. lia. Qed.

Lemma len_nonneg (s : bytes) : 0 <= len s.
Proof. unfold len. lia. Qed.

Lemma compare_ascii_ok p s t :
  wf s -> wf t -> compare_ascii fold lower p s t = Ok (lex (key s) (key t)).
Proof.
  revert t. induction s as [|b s IH]; intros t Hs Ht.
  - cbn [compare_ascii]. rewrite key_nil, lex_nil_l. destruct t as [|c t].
    + reflexivity.
    + pose proof (key_nonempty c t). destruct (key (c :: t)); [congruence|].
      rewrite clamp_neg; [reflexivity|]. rewrite len_cons. pose proof (len_nonneg t). unfold len at 1. simpl. lia.
  - destruct t as [|c t].
    + cbn [compare_ascii]. rewrite key_nil. pose proof (key_nonempty b s).
      destruct (key (b :: s)); [congruence|]. cbn [lex].
      rewrite clamp_pos; [reflexivity|]. rewrite len_cons. pose proof (len_nonneg s). unfold len at 2. simpl. lia.
    + cbn [compare_ascii].
      apply wf_cons_inv in Hs as Hs'. destruct Hs' as [Hb Hs'].
      apply wf_cons_inv in Ht as Ht'. destruct Ht' as [Hc Ht'].
      unfold non_ascii2. destruct ((128 <=? b) || (128 <=? c)) eqn:E.
      * apply compare_runes_ok; try assumption. lia.
      * rewrite !key_ascii by lia. cbn [lex].
        rewrite !(ff_lower _ _ FF) by lia.
        assert (Hcond : ((b =? c) || (fold b =? fold c)) = (fold b =? fold c)).
        { destruct (b =? c) eqn:E2; [|reflexivity]. apply Z.eqb_eq in E2. subst. simpl. symmetry. apply Z.eqb_refl. }
        rewrite Hcond. destruct (fold b =? fold c) eqn:E2; [apply IH; assumption|].
        destruct (fold b <? fold c) eqn:E3.
        -- rewrite clamp_neg by lia. reflexivity.
        -- rewrite clamp_pos by lia. reflexivity.
Qed.

Theorem compare_refines p s t :
  wf s -> wf t -> Compare fold lower p s t = Ok (Spec.compare fold s t).
Proof. intros. apply compare_ascii_ok; assumption. Qed.

Theorem equalfold_refines p s t :
  wf s -> wf t -> EqualFold fold lower p s t = Ok (Spec.equal_fold fold s t).
Proof.
  intros Hs Ht. unfold EqualFold. rewrite compare_refines by assumption. cbn [bind]. f_equal.
  destruct (Spec.equal_fold fold s t) eqn:E.
  - apply compare_zero_iff_equal_fold in E. rewrite E. reflexivity.
  - destruct (Spec.compare fold s t =? 0) eqn:E2; [|reflexivity].
    apply Z.eqb_eq in E2. apply compare_zero_iff_equal_fold in E2. congruence.
Qed.

End Refine.
