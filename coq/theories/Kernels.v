(* Kernels.v — the pure-Go byte kernels of internal/bytealg (the portable
   file set *_generic.go, the no-POPCNT fallback countGeneric*, and the
   standard-library based *_simd.go variants) modelled and proved equal to
   the scalar definitions K.* of Spec.v (k_index_byte, k_count,
   index_non_ascii), for every length and content (C13 / C14, Go level).
   The amd64 assembly is tied to the same scalar definitions by the
   guard-page sweep (harness/kernels.go). *)
From Strcase Require Import Base Utf8 Spec.
From Coq Require Import ZifyBool ZifyNat.

Definition or20 (b : Z) : Z := Z.lor b 32.     (* b | ' ' *)
Definition xor20 (b : Z) : Z := Z.lxor b 32.   (* b ^ ' ' *)

(* countGeneric / countGenericString / count_generic.go Count, CountString *)
Definition count_generic (s : bytes) (c : Z) : Z :=
  if is_alpha c then Z.of_nat (length (filter (fun cc => or20 cc =? or20 c) s))
  else Z.of_nat (length (filter (fun x => x =? c) s)).

(* indexbyte_generic.go IndexByte / IndexByteString *)
Definition index_byte_generic (s : bytes) (c : Z) : Z :=
  if negb (is_alpha c) then index_byte_from (fun b => b =? c) s 0
  else index_byte_from (fun cc => or20 cc =? or20 c) s 0.

(* index_non_ascii_generic.go: b[i]&utf8.RuneSelf != 0 *)
Definition index_non_ascii_generic (s : bytes) : Z :=
  index_byte_from (fun b => negb (Z.land b 128 =? 0)) s 0.

(* count_simd.go: bytes.Count(b,[c]) (+ bytes.Count(b,[c^' ']) for letters) *)
Definition std_count_byte (s : bytes) (c : Z) : Z := Z.of_nat (length (filter (fun x => x =? c) s)).
Definition count_simd (s : bytes) (c : Z) : Z :=
  if negb (is_alpha c) then std_count_byte s c
  else std_count_byte s c + std_count_byte s (xor20 c).

(* finite facts about single bytes, by complete enumeration *)
Fixpoint zrange (n : nat) : list Z :=
  match n with O => [] | S k => zrange k ++ [Z.of_nat k] end.
Lemma zrange_in n b : 0 <= b < Z.of_nat n -> In b (zrange n).
Proof.
  induction n as [|n IH]; intros H; [lia|]. cbn [zrange]. apply in_or_app.
  destruct (Z.eq_dec b (Z.of_nat n)) as [->|E]; [right; left; reflexivity|left; apply IH; lia].
Qed.

Definition chk_pairs (P : Z -> Z -> bool) : bool :=
  forallb (fun c => forallb (fun b => P c b) (zrange 256)) (zrange 256).
Lemma chk_pairs_spec P : chk_pairs P = true -> forall c b, 0 <= c < 256 -> 0 <= b < 256 -> P c b = true.
Proof.
  intros H c b Hc Hb. unfold chk_pairs in H. rewrite forallb_forall in H.
  specialize (H c (zrange_in 256 c ltac:(lia))). rewrite forallb_forall in H.
  apply H. apply zrange_in. lia.
Qed.

Lemma or20_match_chk :
  chk_pairs (fun c b => if is_alpha c then Bool.eqb (or20 b =? or20 c) (byte_match c b)
                        else Bool.eqb (b =? c) (byte_match c b)) = true.
Proof. vm_compute. reflexivity. Qed.

Lemma xor20_match_chk :
  chk_pairs (fun c b => if is_alpha c
                        then Bool.eqb ((b =? c) || (b =? xor20 c)) (byte_match c b) && negb ((b =? c) && (b =? xor20 c))
                        else true) = true.
Proof. vm_compute. reflexivity. Qed.

Lemma high_bit_chk : forallb (fun b => Bool.eqb (negb (Z.land b 128 =? 0)) (128 <=? b)) (zrange 256) = true.
Proof. vm_compute. reflexivity. Qed.

Lemma filter_ext_wf (f g : Z -> bool) s :
  wf s -> (forall b, 0 <= b < 256 -> f b = g b) -> filter f s = filter g s.
Proof.
  intros H E. induction s as [|b s IH]; [reflexivity|]. inversion H; subst. cbn [filter].
  rewrite (E b) by assumption. rewrite IH by assumption. reflexivity.
Qed.

Lemma index_from_ext_wf (f g : Z -> bool) s i :
  wf s -> (forall b, 0 <= b < 256 -> f b = g b) -> index_byte_from f s i = index_byte_from g s i.
Proof.
  intros H E. revert i. induction s as [|b s IH]; intros i; [reflexivity|]. inversion H; subst. cbn [index_byte_from].
  rewrite (E b) by assumption. rewrite IH by assumption. reflexivity.
Qed.

Theorem count_generic_eq s c : wf s -> 0 <= c < 256 -> count_generic s c = k_count s c.
Proof.
  intros Hs Hc. unfold count_generic, k_count. pose proof (chk_pairs_spec _ or20_match_chk c) as P.
  destruct (is_alpha c) eqn:A; do 2 f_equal; apply filter_ext_wf; try assumption;
    intros b Hb; specialize (P b Hc Hb); cbv beta in P; rewrite A in P; apply eqb_prop in P; exact P.
Qed.

Theorem index_byte_generic_eq s c : wf s -> 0 <= c < 256 -> index_byte_generic s c = k_index_byte s c.
Proof.
  intros Hs Hc. unfold index_byte_generic, k_index_byte. pose proof (chk_pairs_spec _ or20_match_chk c) as P.
  destruct (is_alpha c) eqn:A; cbn [negb]; apply index_from_ext_wf; try assumption;
    intros b Hb; specialize (P b Hc Hb); cbv beta in P; rewrite A in P; apply eqb_prop in P; exact P.
Qed.

Theorem index_non_ascii_generic_eq s : wf s -> index_non_ascii_generic s = index_non_ascii s.
Proof.
  intros Hs. unfold index_non_ascii_generic, index_non_ascii. apply index_from_ext_wf; [assumption|].
  intros b Hb. pose proof high_bit_chk as C. rewrite forallb_forall in C.
  specialize (C b (zrange_in 256 b ltac:(lia))). apply eqb_prop in C. exact C.
Qed.

Lemma filter_or_disjoint (f g : Z -> bool) s :
  (forall b, In b s -> (f b && g b) = false) ->
  length (filter (fun b => f b || g b) s) = (length (filter f s) + length (filter g s))%nat.
Proof.
  induction s as [|b s IH]; intros D; [reflexivity|]. cbn [filter].
  pose proof (D b (or_introl eq_refl)) as Db.
  assert (IH' := IH (fun x Hx => D x (or_intror Hx))).
  destruct (f b); destruct (g b); cbn [orb andb length] in *; try discriminate; lia.
Qed.

Theorem count_simd_eq s c : wf s -> 0 <= c < 256 -> count_simd s c = k_count s c.
Proof.
  intros Hs Hc. unfold count_simd, k_count, std_count_byte.
  destruct (is_alpha c) eqn:A; cbn [negb].
  - pose proof (chk_pairs_spec _ xor20_match_chk c) as P.
    rewrite <- Nat2Z.inj_add. f_equal.
    rewrite <- (filter_or_disjoint (fun x => x =? c) (fun x => x =? xor20 c)).
    + f_equal. apply filter_ext_wf; [assumption|]. intros b Hb. specialize (P b Hc Hb). cbv beta in P.
      rewrite A in P. apply andb_true_iff in P as [P _]. apply eqb_prop in P. exact P.
    + intros b Hb. unfold wf in Hs. rewrite Forall_forall in Hs. specialize (P b Hc (Hs b Hb)). cbv beta in P.
      rewrite A in P. apply andb_true_iff in P as [_ P]. destruct ((b =? c) && (b =? xor20 c)); [discriminate|reflexivity].
  - pose proof (chk_pairs_spec _ or20_match_chk c) as P. do 2 f_equal. apply filter_ext_wf; [assumption|].
    intros b Hb. specialize (P b Hc Hb). cbv beta in P. rewrite A in P. apply eqb_prop in P. exact P.
Qed.

(* range and non-interference: the scalar definitions are functions of the
   bytes of s and of c alone, and their results are in range *)
Lemma index_byte_from_bounds f s i0 :
  index_byte_from f s i0 = -1 \/ i0 <= index_byte_from f s i0 < i0 + len s.
Proof.
  revert i0. induction s as [|b s IH]; intros i0; cbn [index_byte_from]; [left; reflexivity|].
  unfold len in *. cbn [length]. destruct (f b); [right; lia|].
  destruct (IH (i0 + 1)) as [E|E]; [left; exact E|right; lia].
Qed.

Theorem k_index_byte_least s c i :
  k_index_byte s c = i -> 0 <= i ->
  byte_match c (nth (Z.to_nat i) s 0) = true /\ i < len s /\
  forall j, (j < Z.to_nat i)%nat -> byte_match c (nth j s 0) = false.
Proof.
  unfold k_index_byte. assert (G : forall s i0 i, 0 <= i0 -> index_byte_from (byte_match c) s i0 = i -> i0 <= i ->
    byte_match c (nth (Z.to_nat (i - i0)) s 0) = true /\ i - i0 < len s /\
    forall j, (j < Z.to_nat (i - i0))%nat -> byte_match c (nth j s 0) = false).
  { clear. induction s as [|b s IH]; intros i0 i H0; cbn [index_byte_from]; [lia|].
    destruct (byte_match c b) eqn:E.
    - intros <- _. rewrite Z.sub_diag. cbn. split; [exact E|]. split; [unfold len; cbn [length]; lia|]. intros j Hj. lia.
    - intros H Hi. destruct (index_byte_from_bounds (byte_match c) s (i0 + 1)) as [B|B]; [lia|].
      destruct (IH (i0 + 1) i ltac:(lia) H ltac:(lia)) as (M & L & N).
      replace (Z.to_nat (i - i0)) with (S (Z.to_nat (i - (i0 + 1)))) by lia. cbn [nth].
      split; [exact M|]. split; [unfold len in *; cbn [length]; lia|].
      intros j Hj. destruct j as [|j]; [exact E|]. apply N. lia. }
  intros H Hi. specialize (G s 0 i ltac:(lia) H Hi). rewrite Z.sub_0_r in G. exact G.
Qed.
