(* Utf8.v — executable model of the parts of Go's unicode/utf8 the library
   uses.  Modelled (trusted) and validated against the real package by the
   correspondence harness (exhaustively on short strings). *)
From Strcase Require Import Base.
From Coq Require Import ZifyBool ZifyNat.

Definition is_cont (b : Z) : bool := (128 <=? b) && (b <=? 191).
Definition is_start (b : Z) : bool := negb (is_cont b).   (* utf8.RuneStart *)

(* utf8.DecodeRune / DecodeRuneInString: (rune, width); width 0 only for "" *)
Definition decode (s : bytes) : Z * nat :=
  match s with
  | [] => (RuneError, 0%nat)
  | b0 :: r =>
    if b0 <? 128 then (b0, 1%nat)
    else if (194 <=? b0) && (b0 <=? 223) then
      match r with
      | b1 :: _ => if is_cont b1 then ((b0 - 192) * 64 + (b1 - 128), 2%nat) else (RuneError, 1%nat)
      | _ => (RuneError, 1%nat)
      end
    else if (224 <=? b0) && (b0 <=? 239) then
      match r with
      | b1 :: b2 :: _ =>
        let lo := if b0 =? 224 then 160 else 128 in
        let hi := if b0 =? 237 then 159 else 191 in
        if (lo <=? b1) && (b1 <=? hi) && is_cont b2
        then ((b0 - 224) * 4096 + (b1 - 128) * 64 + (b2 - 128), 3%nat) else (RuneError, 1%nat)
      | _ => (RuneError, 1%nat)
      end
    else if (240 <=? b0) && (b0 <=? 244) then
      match r with
      | b1 :: b2 :: b3 :: _ =>
        let lo := if b0 =? 240 then 144 else 128 in
        let hi := if b0 =? 244 then 143 else 191 in
        if (lo <=? b1) && (b1 <=? hi) && is_cont b2 && is_cont b3
        then ((b0 - 240) * 262144 + (b1 - 128) * 4096 + (b2 - 128) * 64 + (b3 - 128), 4%nat)
        else (RuneError, 1%nat)
      | _ => (RuneError, 1%nat)
      end
    else (RuneError, 1%nat)
  end.

(* Forward segmentation of an arbitrary byte string into (rune, width)
   pairs, exactly the sequence `for i, r := range s` / repeated DecodeRune
   visits.  Structural recursion with a skip counter. *)
Fixpoint segs_aux (skip : nat) (s : bytes) : list (Z * nat) :=
  match s with
  | [] => []
  | b :: r =>
    match skip with
    | S k => segs_aux k r
    | O => let d := decode (b :: r) in d :: segs_aux (snd d - 1) r
    end
  end.
Definition segs (s : bytes) : list (Z * nat) := segs_aux 0 s.

Definition runes (s : bytes) : list Z := map fst (segs s).
Definition widths (s : bytes) : list nat := map snd (segs s).
Definition rune_count (s : bytes) : nat := length (segs s).

(* byte offset of the k-th code-point boundary *)
Definition sum_nat (l : list nat) : nat := fold_right Nat.add 0%nat l.
Definition off (s : bytes) (k : nat) : nat := sum_nat (firstn k (widths s)).

(* utf8.ValidString: every segment decodes to something other than a
   width-1 RuneError (an encoded U+FFFD has width 3 and is valid). *)
Definition valid_seg (d : Z * nat) : bool := negb ((fst d =? RuneError) && (snd d =? 1)%nat).
Definition valid_utf8 (s : bytes) : bool := forallb valid_seg (segs s).

(* utf8.ValidRune *)
Definition valid_rune (r : Z) : bool :=
  ((0 <=? r) && (r <? 55296)) || ((57343 <? r) && (r <=? MaxRune)).

(* utf8.RuneLen *)
Definition rune_len (r : Z) : Z :=
  if r <? 0 then -1
  else if r <? 128 then 1
  else if r <? 2048 then 2
  else if (55296 <=? r) && (r <=? 57343) then -1
  else if r <? 65536 then 3
  else if r <=? MaxRune then 4
  else -1.

(* utf8.EncodeRune / string(r): invalid runes encode as U+FFFD *)
Definition encode (r : Z) : bytes :=
  if (0 <=? r) && (r <? 128) then [r]
  else if (0 <=? r) && (r <? 2048) then [192 + r / 64; 128 + r mod 64]
  else if negb (valid_rune r) then [239; 191; 189]
  else if r <? 65536 then [224 + r / 4096; 128 + (r / 64) mod 64; 128 + r mod 64]
  else [240 + r / 262144; 128 + (r / 4096) mod 64; 128 + (r / 64) mod 64; 128 + r mod 64].

(* utf8.DecodeLastRune / DecodeLastRuneInString *)
Definition chk_last (l : bytes) : Z * nat :=
  let d := decode l in
  if (snd d =? length l)%nat then d else (RuneError, 1%nat).

(* the scan, on the reversed string (last byte first) *)
Definition decode_last_rev (rs : bytes) : Z * nat :=
  match rs with
  | [] => (RuneError, 0%nat)
  | b0 :: r =>
    if b0 <? 128 then (b0, 1%nat)
    else match r with
    | [] => (RuneError, 1%nat)
    | b1 :: r1 =>
      if is_start b1 then chk_last [b1; b0]
      else match r1 with
      | [] => (RuneError, 1%nat)
      | b2 :: r2 =>
        if is_start b2 then chk_last [b2; b1; b0]
        else match r2 with
        | [] => (RuneError, 1%nat)
        | b3 :: _ => if is_start b3 then chk_last [b3; b2; b1; b0] else (RuneError, 1%nat)
        end
      end
    end
  end.

Definition decode_last (s : bytes) : Z * nat := decode_last_rev (rev_append s []).

(* ------------------------------------------------------------------ *)
(* Basic facts *)

Lemma decode_nil : decode [] = (RuneError, 0%nat).
Proof. reflexivity. Qed.

Ltac decode_cases :=
  repeat match goal with
  | |- context [if ?c then _ else _] => destruct c eqn:?
  | |- context [match ?l with [] => _ | _ :: _ => _ end] => destruct l
  end.

Lemma decode_width_pos b s : (1 <= snd (decode (b :: s)) <= 4)%nat.
Proof. unfold decode. decode_cases; simpl; lia. Qed.

Lemma decode_width_le s : (snd (decode s) <= length s)%nat.
Proof. unfold decode. decode_cases; simpl; lia. Qed.

Lemma decode_ascii b s : b < 128 -> decode (b :: s) = (b, 1%nat).
Proof. intros H. unfold decode. destruct (b <? 128) eqn:E; [reflexivity|lia]. Qed.

Lemma decode_rune_range s : wf s -> 0 <= fst (decode s) <= MaxRune.
Proof.
  intros H. unfold decode, MaxRune, RuneError, is_cont in *.
  destruct s as [|b0 s]; [simpl; lia|]. inversion H as [|? ? H0 H']; subst.
  destruct (b0 <? 128) eqn:?; [simpl; lia|].
  destruct ((194 <=? b0) && (b0 <=? 223)) eqn:?.
  { destruct s as [|b1 s]; [simpl; lia|]. inversion H'; subst.
    destruct ((128 <=? b1) && (b1 <=? 191)) eqn:?; simpl; lia. }
  destruct ((224 <=? b0) && (b0 <=? 239)) eqn:?.
  { destruct s as [|b1 [|b2 s]]; try (simpl; lia).
    inversion H' as [|? ? ? H'']; subst. inversion H''; subst.
    match goal with |- context [if ?c then _ else _] => destruct c eqn:? end; simpl; [|lia].
    destruct (b0 =? 224); destruct (b0 =? 237); lia. }
  destruct ((240 <=? b0) && (b0 <=? 244)) eqn:?; [|simpl; lia].
  destruct s as [|b1 [|b2 [|b3 s]]]; try (simpl; lia).
  inversion H' as [|? ? ? H'']; subst. inversion H'' as [|? ? ? H3]; subst. inversion H3; subst.
  match goal with |- context [if ?c then _ else _] => destruct c eqn:? end; simpl; [|lia].
  destruct (b0 =? 240) eqn:?; destruct (b0 =? 244) eqn:?; lia.
Qed.

(* unfolding lemma for the segmentation *)
Lemma segs_aux_skip k s : segs_aux k s = segs (skipn k s).
Proof.
  revert s. induction k as [|k IH]; intros s; [reflexivity|].
  destruct s as [|b r]; [reflexivity|]. simpl. apply IH.
Qed.

Lemma segs_nil : segs [] = [].
Proof. reflexivity. Qed.

Lemma segs_cons b r :
  segs (b :: r) = decode (b :: r) :: segs (skipn (snd (decode (b :: r))) (b :: r)).
Proof.
  unfold segs at 1. cbn [segs_aux]. f_equal. rewrite segs_aux_skip.
  pose proof (decode_width_pos b r) as H.
  destruct (snd (decode (b :: r))) as [|w]; [lia|].
  simpl. rewrite Nat.sub_0_r. reflexivity.
Qed.

Lemma segs_unfold s :
  s <> [] -> segs s = decode s :: segs (skipn (snd (decode s)) s).
Proof. destruct s; [congruence|]. intros _. apply segs_cons. Qed.

Lemma segs_ascii b r : b < 128 -> segs (b :: r) = (b, 1%nat) :: segs r.
Proof. intros H. rewrite segs_cons, decode_ascii by assumption. reflexivity. Qed.

(* strong induction principle following the segmentation *)
Lemma segs_ind (P : bytes -> Prop) :
  P [] ->
  (forall b r, P (skipn (snd (decode (b :: r))) (b :: r)) -> P (b :: r)) ->
  forall s, P s.
Proof.
  intros Hnil Hcons s.
  assert (H : forall n s, (length s <= n)%nat -> P s).
  { induction n as [|n IH]; intros s0 Hl.
    - destruct s0; [exact Hnil|simpl in Hl; lia].
    - destruct s0 as [|b r]; [exact Hnil|]. apply Hcons. apply IH.
      pose proof (decode_width_pos b r) as Hw. rewrite skipn_length. cbn [length] in *. lia. }
  apply (H (length s)). lia.
Qed.

Lemma sum_nat_app a b : sum_nat (a ++ b) = (sum_nat a + sum_nat b)%nat.
Proof. induction a; simpl; lia. Qed.

Lemma widths_sum s : sum_nat (widths s) = length s.
Proof.
  induction s as [|b r IH] using segs_ind; [reflexivity|].
  unfold widths in *. rewrite segs_cons. cbn [map sum_nat fold_right].
  fold (sum_nat (map snd (segs (skipn (snd (decode (b :: r))) (b :: r))))).
  rewrite IH, skipn_length. pose proof (decode_width_le (b :: r)). lia.
Qed.

Lemma off_0 s : off s 0 = 0%nat.
Proof. reflexivity. Qed.

Lemma off_all s k : (rune_count s <= k)%nat -> off s k = length s.
Proof.
  intros H. unfold off. rewrite firstn_all2; [apply widths_sum|].
  unfold widths, rune_count in *. rewrite map_length. exact H.
Qed.

Lemma off_le s k : (off s k <= length s)%nat.
Proof.
  unfold off. rewrite <- (widths_sum s).
  rewrite <- (firstn_skipn k (widths s)) at 2. rewrite sum_nat_app. lia.
Qed.

Lemma off_mono s j k : (j <= k)%nat -> (off s j <= off s k)%nat.
Proof.
  intros H. unfold off. replace k with (j + (k - j))%nat by lia.
  rewrite firstn_add, sum_nat_app. lia.
Qed.

Lemma off_S s k d : nth_error (segs s) k = Some d -> off s (S k) = (off s k + snd d)%nat.
Proof.
  intros H. unfold off, widths.
  assert (Hn : nth_error (map snd (segs s)) k = Some (snd d)) by (apply map_nth_error; exact H).
  revert Hn. generalize (map snd (segs s)). clear H.
  induction k as [|k IH]; intros l Hn; destruct l as [|x l]; simpl in *; try discriminate.
  - inversion Hn; subst. lia.
  - rewrite (IH l Hn). lia.
Qed.

(* Decoding from the k-th boundary yields the tail of the segmentation. *)
Lemma segs_skipn_off s k : segs (skipn (off s k) s) = skipn k (segs s).
Proof.
  revert k. induction s as [|b r IH] using segs_ind; intros k.
  - unfold off. simpl. rewrite firstn_nil. simpl. destruct k; reflexivity.
  - destruct k as [|k]; [reflexivity|].
    unfold off, widths in *. rewrite segs_cons. cbn [map firstn sum_nat fold_right skipn].
    fold (sum_nat (firstn k (map snd (segs (skipn (snd (decode (b :: r))) (b :: r)))))).
    rewrite <- IH. rewrite skipn_skipn_add. reflexivity.
Qed.
