(* Base.v — shared vocabulary of the strcase model.
   Byte strings are lists of Z; the well-formedness predicate [wf] (every
   element in [0,256)) is the only hypothesis theorems ever put on a string
   argument, and only where the model reads a 256-entry table or does byte
   arithmetic.  Offsets returned to the API level are Z (-1 = not found). *)
From Coq Require Export List ZArith Lia Bool Arith.
From Coq Require Import ZifyBool ZifyNat.
Export ListNotations.
Open Scope Z_scope.

Definition bytes := list Z.
Definition wf (s : bytes) : Prop := Forall (fun b => 0 <= b < 256) s.
Definition wfb (s : bytes) : bool := forallb (fun b => (0 <=? b) && (b <? 256)) s.

Definition len (s : bytes) : Z := Z.of_nat (length s).

Definition RuneError : Z := 65533.
Definition RuneSelf : Z := 128.
Definition MaxRune : Z := 1114111.

Definition clamp (n : Z) : Z := if n <? 0 then -1 else if 0 <? n then 1 else 0.

Lemma wf_wfb s : wf s <-> wfb s = true.
Proof.
  unfold wf, wfb. rewrite forallb_forall, Forall_forall.
  split; intros H x Hx; specialize (H x Hx); lia.
Qed.

Lemma wf_app s t : wf (s ++ t) <-> wf s /\ wf t.
Proof. unfold wf. apply Forall_app. Qed.

Lemma wf_skipn n s : wf s -> wf (skipn n s).
Proof.
  unfold wf. revert s. induction n as [|n IH]; intros s H; simpl; [exact H|].
  destruct s as [|b s]; [constructor|]. inversion H; subst. apply IH. assumption.
Qed.

Lemma wf_firstn n s : wf s -> wf (firstn n s).
Proof.
  unfold wf. revert s. induction n as [|n IH]; intros s H; simpl; [constructor|].
  destruct s as [|b s]; [constructor|]. inversion H; subst. constructor; [assumption|].
  apply IH. assumption.
Qed.

Lemma clamp_neg n : n < 0 -> clamp n = -1.
Proof. unfold clamp. intros. destruct (n <? 0) eqn:?; lia. Qed.
Lemma clamp_pos n : 0 < n -> clamp n = 1.
Proof. unfold clamp. intros. destruct (n <? 0) eqn:?; destruct (0 <? n) eqn:?; lia. Qed.
Lemma clamp_zero : clamp 0 = 0.
Proof. reflexivity. Qed.
Lemma clamp_opp n : clamp (- n) = - clamp n.
Proof. unfold clamp. destruct (n <? 0) eqn:?; destruct (0 <? n) eqn:?;
  destruct (- n <? 0) eqn:?; destruct (0 <? - n) eqn:?; lia. Qed.
Lemma clamp_eq0 n : clamp n = 0 <-> n = 0.
Proof. unfold clamp. destruct (n <? 0) eqn:?; destruct (0 <? n) eqn:?; lia. Qed.

Lemma skipn_skipn_add {A} (a b : nat) (l : list A) : skipn a (skipn b l) = skipn (b + a) l.
Proof.
  revert l. induction b as [|b IH]; intros l; [reflexivity|].
  destruct l as [|x l]; simpl; [destruct a; reflexivity|apply IH].
Qed.

Lemma firstn_add {A} (a b : nat) (l : list A) :
  firstn (a + b) l = firstn a l ++ firstn b (skipn a l).
Proof.
  revert l. induction a as [|a IH]; intros l; [reflexivity|].
  destruct l as [|x l]; simpl; [rewrite firstn_nil; reflexivity|]. f_equal. apply IH.
Qed.

(* result of running a fuelled, bounds-checked model of Go code *)
Inductive res (A : Type) : Type :=
| Ok (a : A)
| Panic          (* Go would panic (index / slice out of range) *)
| OutOfFuel.     (* the model's loop fuel ran out (never happens: theorems exclude it) *)
Arguments Ok {A} a.
Arguments Panic {A}.
Arguments OutOfFuel {A}.

Definition bind {A B} (r : res A) (f : A -> res B) : res B :=
  match r with Ok a => f a | Panic => Panic | OutOfFuel => OutOfFuel end.
Notation "'do' x <- r ; k" := (bind r (fun x => k)) (at level 200, x pattern, r at level 100, k at level 200).
