(* Refine_RK.v — indexRabinKarpUnicode refines Spec.index on all byte
   strings (non-empty needle), both package shapes, every prime.  Sound
   because every hash hit is confirmed by HasPrefix on the window; complete
   because the rolling hash is a function of the window's key (equal keys give
   equal hashes, modulo 2^32). *)
From Strcase Require Import Base Utf8 Utf8Facts Spec SpecFacts SpecIndex Impl Impl4 Impl5 Impl6
  Refine_Compare Refine_Prefix Refine_RuneCase.
From Coq Require Import ZifyBool ZifyNat Zpow_facts.

(* ---------- arithmetic modulo 2^32 ---------- *)

Lemma w32_idem x : w32 (w32 x) = w32 x.
Proof. unfold w32. apply Z.mod_mod. lia. Qed.

Lemma w32_add a b : w32 (w32 a + w32 b) = w32 (a + b).
Proof. unfold w32. symmetry. apply Z.add_mod. lia. Qed.

Lemma w32_add_l a b : w32 (w32 a + b) = w32 (a + b).
Proof. unfold w32. apply Z.add_mod_idemp_l. lia. Qed.

Lemma w32_mul a b : w32 (w32 a * w32 b) = w32 (a * b).
Proof. unfold w32. symmetry. apply Z.mul_mod. lia. Qed.

Lemma w32_mul_l a b : w32 (w32 a * b) = w32 (a * b).
Proof. unfold w32. apply Z.mul_mod_idemp_l. lia. Qed.

Lemma w32_mul_r a b : w32 (a * w32 b) = w32 (a * b).
Proof. unfold w32. apply Z.mul_mod_idemp_r. lia. Qed.

Lemma w32_sub a b : w32 (w32 a - w32 b) = w32 (a - b).
Proof. unfold w32. symmetry. apply Zminus_mod. Qed.

Section H.
Variable pr : Z.    (* primeRK *)

(* the hash as a polynomial, without reduction *)
Definition Hz (l : list Z) (h0 : Z) : Z := fold_left (fun h x => h * pr + x) l h0.
(* what the code computes *)
Definition Hw (l : list Z) (h0 : Z) : Z := fold_left (fun h x => w32 (w32 (h * pr) + w32 x)) l h0.

Lemma Hw_Hz l h0 : w32 (Hw l h0) = w32 (Hz l h0).
Proof.
  revert h0. induction l as [|x l IH]; intros h0; [reflexivity|]. cbn [Hw Hz fold_left].
  fold (Hw l (w32 (w32 (h0 * pr) + w32 x))). fold (Hz l (h0 * pr + x)).
  rewrite IH. rewrite w32_add.
  (* Hz is affine in the seed: congruent seeds give congruent results *)
  assert (G : forall l a b, w32 a = w32 b -> w32 (Hz l a) = w32 (Hz l b)).
  { clear. induction l as [|y l IHl]; intros a b E; [exact E|]. cbn [Hz fold_left].
    apply IHl. rewrite <- (w32_add_l (a * pr)), <- (w32_add_l (b * pr)).
    rewrite <- (w32_mul_l a), <- (w32_mul_l b), E. reflexivity. }
  apply G. apply w32_idem.
Qed.

Lemma Hw_reduced l h0 : l <> [] -> w32 (Hw l h0) = Hw l h0.
Proof.
  intros Hne. destruct (exists_last Hne) as (l' & x & ->). unfold Hw. rewrite fold_left_app. cbn [fold_left].
  apply w32_idem.
Qed.

Lemma Hz_app l x h0 : Hz (l ++ [x]) h0 = Hz l h0 * pr + x.
Proof. unfold Hz. rewrite fold_left_app. reflexivity. Qed.

Lemma Hz_seed l h0 : Hz l h0 = h0 * pr ^ Z.of_nat (length l) + Hz l 0.
Proof.
  revert h0. induction l as [|x l IH]; intros h0; [cbn; lia|].
  cbn [Hz fold_left length]. fold (Hz l (h0 * pr + x)). fold (Hz l (0 * pr + x)).
  rewrite (IH (h0 * pr + x)), (IH (0 * pr + x)).
  rewrite Nat2Z.inj_succ, Z.pow_succ_r by lia. ring.
Qed.

(* rolling: drop the first element, append one *)
Lemma Hz_roll a l x : Hz (l ++ [x]) 0 = Hz (a :: l) 0 * pr + x - a * pr ^ Z.of_nat (S (length l)).
Proof.
  rewrite Hz_app. cbn [Hz fold_left]. fold (Hz l (0 * pr + a)). rewrite (Hz_seed l (0 * pr + a)).
  rewrite Nat2Z.inj_succ, Z.pow_succ_r by lia. ring.
Qed.

(* square-and-multiply *)
Lemma pow_loop_ok fuel i pow sq :
  0 <= i -> (Z.to_nat i < fuel)%nat ->
  exists r, pow_loop fuel i pow sq = Ok r /\ w32 r = w32 (pow * sq ^ i).
Proof.
  revert i pow sq. induction fuel as [|f IH]; intros i pow sq Hi Hf; [lia|].
  cbn [pow_loop]. destruct (0 <? i) eqn:P.
  - assert (Hh : 0 <= Z.shiftr i 1 < i) by (rewrite Z.shiftr_div_pow2 by lia; change (2 ^ 1) with 2; split; [apply Z.div_pos; lia|apply Z.div_lt; lia]).
    destruct (IH (Z.shiftr i 1) (if Z.odd i then w32 (pow * sq) else pow) (w32 (sq * sq)) ltac:(lia) ltac:(lia)) as (r & E & R).
    exists r. split; [exact E|]. rewrite R.
    assert (Ei : i = 2 * Z.shiftr i 1 + (if Z.odd i then 1 else 0)).
    { rewrite Z.shiftr_div_pow2 by lia. change (2 ^ 1) with 2. rewrite (Z.div_mod i 2) at 1 by lia. f_equal.
      rewrite Zmod_odd. reflexivity. }
    set (k := Z.shiftr i 1) in *.
    assert (Hsq : w32 (w32 (sq * sq) ^ k) = w32 ((sq * sq) ^ k)).
    { unfold w32. symmetry. apply Zpower_mod. lia. }
    rewrite <- w32_mul_r, Hsq, w32_mul_r.
    rewrite Ei at 2. destruct (Z.odd i).
    + rewrite <- w32_mul_l, w32_idem, w32_mul_l. f_equal.
      rewrite Z.pow_add_r, Z.pow_mul_r, Z.pow_1_r by lia. replace (sq ^ 2) with (sq * sq) by ring. ring.
    + f_equal. rewrite Z.add_0_r, Z.pow_mul_r by lia. replace (sq ^ 2) with (sq * sq) by ring. ring.
  - exists pow. split; [reflexivity|]. assert (i = 0) by lia. subst. rewrite Z.pow_0_r, Z.mul_1_r. reflexivity.
Qed.

End H.

(* ---------- list facts ---------- *)

Lemma prefixb_firstn_len (q l : list Z) : prefixb q (firstn (length q) l) = prefixb q l.
Proof.
  revert l. induction q as [|x q IH]; intros l; [reflexivity|].
  destruct l as [|y l]; [reflexivity|]. cbn [length firstn prefixb]. rewrite IH. reflexivity.
Qed.

Lemma find_first_least (q l : list Z) k :
  prefixb q (skipn k l) = true -> (forall j, (j < k)%nat -> prefixb q (skipn j l) = false) -> (k <= length l)%nat ->
  find_first q l 0 = Some k.
Proof.
  intros Hk Hl Hlen. destruct (find_first q l 0) as [k'|] eqn:F.
  - apply find_first_some in F as (d & -> & Hd & Hm & Hn). cbn [Nat.add]. f_equal.
    destruct (lt_eq_lt_dec d k) as [[L|E]|L]; [rewrite (Hl d L) in Hm; discriminate|exact E|rewrite (Hn k L) in Hk; discriminate].
  - rewrite (find_first_none _ _ _ F k) in Hk. discriminate.
Qed.

Lemma find_first_absent (q l : list Z) :
  (forall j, prefixb q (skipn j l) = false) -> find_first q l 0 = None.
Proof.
  intros H. destruct (find_first q l 0) as [k|] eqn:F; [|reflexivity].
  apply find_first_some in F as (d & _ & _ & Hm & _). rewrite H in Hm. discriminate.
Qed.

Lemma firstn_S_skipn {A} (l : list A) a n d :
  (a < length l)%nat -> firstn (S n) (skipn a l) = nth a l d :: firstn n (skipn (S a) l).
Proof.
  revert a. induction l as [|x l IH]; intros a H; [cbn in H; lia|].
  destruct a as [|a]; [reflexivity|]. cbn [skipn nth]. apply IH. cbn [length] in H. lia.
Qed.

Lemma firstn_snoc_skipn {A} (l : list A) a n d :
  (a + n < length l)%nat -> firstn (S n) (skipn a l) = firstn n (skipn a l) ++ [nth (a + n) l d].
Proof.
  revert a. induction n as [|n IH]; intros a H.
  - rewrite (firstn_S_skipn l a 0 d) by lia. cbn [firstn app]. rewrite Nat.add_0_r. reflexivity.
  - rewrite (firstn_S_skipn l a (S n) d) by lia. rewrite (firstn_S_skipn l a n d) by lia.
    rewrite (IH (S a)) by lia. cbn [app]. replace (S a + n)%nat with (a + S n)%nat by lia. reflexivity.
Qed.

Lemma rune_count_le s : (rune_count s <= length s)%nat.
Proof.
  induction s as [|b l IH] using segs_ind; [cbn; lia|]. rewrite rune_count_cons. rewrite skipn_length in IH.
  pose proof (decode_width_pos b l). pose proof (decode_width_le (b :: l)). cbn [length] in *. lia.
Qed.

Section RK.
Variables fold lower : Z -> Z.
Hypothesis FF : fold_facts fold lower.
Hypothesis WF : width_facts fold.
Variable pr : Z.

Notation key := (key fold).
Notation match_at := (match_at fold).
Notation first_folded := (Impl6.first_folded fold lower).

Lemma first_folded_key b t :
  wf (b :: t) ->
  first_folded (b :: t) = Ok (hd 0 (key (b :: t)), Z.of_nat (snd (decode (b :: t)))) /\
  key (b :: t) = hd 0 (key (b :: t)) :: key (skipn (snd (decode (b :: t))) (b :: t)).
Proof.
  intros Hwf. assert (Hb : 0 <= b < 256) by (inversion Hwf; assumption).
  unfold Impl6.first_folded. destruct (b <? 128) eqn:E.
  - rewrite key_ascii by lia. rewrite decode_ascii by lia. cbn [hd snd skipn].
    rewrite (ff_lower _ _ FF) by lia. split; reflexivity.
  - rewrite key_cons. cbn [hd]. split; reflexivity.
Qed.

Lemma key_skipn_off s a : key (skipn (off s a) s) = skipn a (key s).
Proof. unfold Spec.key. rewrite segs_skipn_off. symmetry. apply skipn_map. Qed.

(* reading the folded code point at the a-th boundary *)
Lemma folded_at s a :
  wf s -> (a < rune_count s)%nat ->
  (off s a < off s (S a) <= length s)%nat /\
  slice_from s (Z.of_nat (off s a)) = Ok (skipn (off s a) s) /\
  first_folded (skipn (off s a) s) = Ok (nth a (key s) 0, Z.of_nat (off s (S a)) - Z.of_nat (off s a)).
Proof.
  intros Hw Ha. pose proof (off_strict s a Ha) as Hs. pose proof (off_le s (S a)) as Hle.
  split; [lia|]. split.
  { unfold slice_from, len. replace ((0 <=? Z.of_nat (off s a)) && (Z.of_nat (off s a) <=? Z.of_nat (length s))) with true by lia.
    rewrite Nat2Z.id. reflexivity. }
  destruct (skipn (off s a) s) as [|b t] eqn:Sk.
  { apply (f_equal (@length Z)) in Sk. rewrite skipn_length in Sk. cbn in Sk. lia. }
  assert (Hwt : wf (b :: t)) by (rewrite <- Sk; apply wf_skipn; exact Hw).
  destruct (first_folded_key b t Hwt) as [E K]. rewrite E. f_equal.
  assert (Hk : key (b :: t) = skipn a (key s)) by (rewrite <- Sk; apply key_skipn_off).
  assert (Hn : hd 0 (key (b :: t)) = nth a (key s) 0).
  { rewrite Hk. replace (hd 0 (skipn a (key s))) with (nth 0 (skipn a (key s)) 0) by (destruct (skipn a (key s)); reflexivity).
    rewrite nth_skipn_add, Nat.add_0_r. reflexivity. }
  assert (Hwd : off s (S a) = (off s a + snd (decode (b :: t)))%nat).
  { replace (S a) with (a + 1)%nat by lia. rewrite off_add, Sk, off_cons. rewrite off_0. lia. }
  rewrite Hn, Hwd. f_equal. lia.
Qed.


Notation Hw := (Hw pr).
Notation Hz := (Hz pr).

Lemma Hw_cons x l h : Hw (x :: l) h = Hw l (w32 (w32 (h * pr) + w32 x)).
Proof. reflexivity. Qed.

(* hashStrUnicode: the hash of the key, the multiplier pr^N, the number N of code points *)
Lemma hash_runes_ok fuel sep h n :
  wf sep -> (length sep < fuel)%nat ->
  hash_runes fold lower pr fuel sep h n = Ok (Hw (key sep) h, n + Z.of_nat (length (key sep))).
Proof.
  revert sep h n. induction fuel as [|f IH]; intros sep h n Hw Hf; [lia|].
  cbn [hash_runes]. destruct sep as [|b t]; [cbn; f_equal; f_equal; lia|].
  destruct (first_folded_key b t Hw) as [E K]. rewrite E. cbn [bind fst snd].
  pose proof (decode_width_le (b :: t)) as Wl. pose proof (decode_width_pos b t) as Wp.
  unfold slice_from, len. replace ((0 <=? Z.of_nat (snd (decode (b :: t)))) && (Z.of_nat (snd (decode (b :: t))) <=? Z.of_nat (length (b :: t)))) with true by lia.
  cbn [bind]. rewrite Nat2Z.id. rewrite IH.
  - rewrite K at 2 3. rewrite Hw_cons. cbn [length]. f_equal. f_equal. lia.
  - apply wf_skipn. exact Hw.
  - rewrite skipn_length. cbn [length] in *. lia.
Qed.

Lemma hashStr_ok sep :
  wf sep ->
  exists pw, hashStrUnicode fold lower pr sep = Ok (Hw (key sep) 0, pw, Z.of_nat (length (key sep))) /\
             w32 pw = w32 (pr ^ Z.of_nat (length (key sep))).
Proof.
  intros Hw. unfold hashStrUnicode. rewrite hash_runes_ok by (try assumption; lia). cbn [bind fst snd].
  rewrite Z.add_0_l.
  assert (Hl : (length (key sep) <= length sep)%nat) by (rewrite (key_length fold); apply rune_count_le).
  destruct (pow_loop_ok (S (length sep)) (Z.of_nat (length (key sep))) 1 (w32 pr) ltac:(lia) ltac:(lia)) as (r & E & R).
  rewrite E. cbn [bind]. exists r. split; [reflexivity|]. rewrite R, Z.mul_1_l. unfold w32. symmetry. apply Zpower_mod. lia.
Qed.


Notation K s := (key s).

(* the first loop: hash of the first min(n, remaining) code points from boundary a *)
Lemma rk_init_ok fuel s a h n :
  wf s -> (a <= rune_count s)%nat -> 1 <= n -> (length s - off s a < fuel)%nat ->
  let m := Nat.min (Z.to_nat n) (rune_count s - a) in
  rk_init fold lower pr fuel s (Z.of_nat (off s a)) h n =
    Ok (Hw (firstn m (skipn a (K s))) h, Z.of_nat (off s (a + m)), n - Z.of_nat m).
Proof.
  intros Hw. revert a h n. induction fuel as [|f IH]; intros a h n Ha Hn Hf; [lia|]. cbv zeta.
  cbn [rk_init]. unfold len. destruct (Z.of_nat (off s a) <? Z.of_nat (length s)) eqn:L.
  - assert (Ha' : (a < rune_count s)%nat).
    { destruct (le_lt_dec (rune_count s) a) as [Hge|]; [|assumption]. rewrite (off_all s a Hge) in L. lia. }
    destruct (folded_at s a Hw Ha') as (Ho & Es & Ef). rewrite Es. cbn [bind]. rewrite Ef. cbn [bind fst snd].
    replace (Z.of_nat (off s a) + (Z.of_nat (off s (S a)) - Z.of_nat (off s a))) with (Z.of_nat (off s (S a))) by lia.
    assert (Hk : skipn a (K s) = nth a (K s) 0 :: skipn (S a) (K s)).
    { rewrite <- (firstn_skipn 1 (skipn a (K s))) at 1. rewrite (firstn_S_skipn (K s) a 0 0) by (rewrite (key_length fold); lia).
      cbn [firstn app]. rewrite skipn_skipn_add. replace (a + 1)%nat with (S a) by lia. reflexivity. }
    destruct (n - 1 =? 0) eqn:N1.
    + assert (n = 1) by lia. subst n. replace (Nat.min (Z.to_nat 1) (rune_count s - a)) with 1%nat by lia.
      rewrite Hk. cbn [firstn]. rewrite Hw_cons. cbn. replace (a + 1)%nat with (S a) by lia. reflexivity.
    + rewrite (IH (S a) _ (n - 1)) by lia. cbv zeta.
      replace (Nat.min (Z.to_nat n) (rune_count s - a)) with (S (Nat.min (Z.to_nat (n - 1)) (rune_count s - S a))) by lia.
      rewrite Hk. cbn [firstn]. rewrite Hw_cons.
      replace (a + S (Nat.min (Z.to_nat (n - 1)) (rune_count s - S a)))%nat with (S a + Nat.min (Z.to_nat (n - 1)) (rune_count s - S a))%nat by lia.
      f_equal. f_equal. lia.
  - assert (Ha' : a = rune_count s).
    { destruct (le_lt_dec (rune_count s) a) as [Hge|Hlt]; [lia|]. pose proof (off_lt s a (rune_count s) Hlt ltac:(lia)) as O.
      rewrite (off_all s (rune_count s)) in O by lia. lia. }
    replace (Nat.min (Z.to_nat n) (rune_count s - a)) with 0%nat by lia. cbn [firstn]. rewrite Nat.add_0_r, Z.sub_0_r. reflexivity.
Qed.

Lemma slice_window s i j :
  (i <= j)%nat -> (j <= length s)%nat ->
  (do a <- slice_to s (Z.of_nat j); slice_from a (Z.of_nat i)) = Ok (slice s i j).
Proof.
  intros Hij Hj. unfold slice_to, len. replace ((0 <=? Z.of_nat j) && (Z.of_nat j <=? Z.of_nat (length s))) with true by lia.
  cbn [bind]. unfold slice_from, len. rewrite Nat2Z.id, firstn_length, Nat.min_l by exact Hj.
  replace ((0 <=? Z.of_nat i) && (Z.of_nat i <=? Z.of_nat j)) with true by lia. rewrite Nat2Z.id.
  unfold slice. rewrite skipn_firstn_comm. reflexivity.
Qed.

Section Roll.
Variables s sub : bytes.
Hypothesis Hws : wf s.
Hypothesis Hwsub : wf sub.
Hypothesis Hne : sub <> [].
Variables hashss pow : Z.
Let N := length (K sub).
Hypothesis Hhash : hashss = Hw (K sub) 0.
Hypothesis Hpow : w32 pow = w32 (pr ^ Z.of_nat N).

Lemma N_pos : (1 <= N)%nat.
Proof. unfold N. destruct sub as [|b t]; [congruence|]. pose proof (key_nonempty fold b t). destruct (K (b :: t)); [congruence|cbn; lia]. Qed.

Lemma hashss_reduced : w32 hashss = hashss.
Proof. rewrite Hhash. apply Hw_reduced. pose proof N_pos. unfold N in *. destruct (K sub); [cbn in *; lia|discriminate]. Qed.

Definition W (a : nat) : list Z := firstn N (skipn a (K s)).

Lemma W_length a : (a + N <= rune_count s)%nat -> length (W a) = N.
Proof. intros H. unfold W. rewrite firstn_length, skipn_length, (key_length fold). lia. Qed.

(* the window test is exactly "sub matches at boundary a" *)
Lemma window_test p a h :
  (a + N <= rune_count s)%nat -> w32 h = h -> w32 h = w32 (Hz (W a) 0) ->
  (do m <- (if h =? hashss then HasPrefix fold lower p (slice s (off s a) (off s (a + N))) sub else Ok false); Ok m) =
  Ok (match_at s sub a).
Proof.
  intros Ha Hr Hh.
  assert (Hwin : wf (slice s (off s a) (off s (a + N)))) by (unfold slice; apply wf_firstn, wf_skipn; exact Hws).
  assert (Hkey : K (slice s (off s a) (off s (a + N))) = W a).
  { rewrite key_slice by lia. unfold W. f_equal. lia. }
  assert (Hm : has_prefix fold (slice s (off s a) (off s (a + N))) sub = match_at s sub a).
  { unfold has_prefix, SpecIndex.match_at. rewrite Hkey. unfold W, N. apply prefixb_firstn_len. }
  destruct (match_at s sub a) eqn:M.
  - (* equal keys, hence equal hashes *)
    assert (Ek : W a = K sub).
    { unfold SpecIndex.match_at in M. rewrite <- (prefixb_firstn_len (K sub)) in M. fold N in M. fold (W a) in M.
      symmetry. apply prefixb_same_length; [exact M|]. rewrite W_length by exact Ha. reflexivity. }
    assert (Eh : h = hashss).
    { rewrite <- Hr, Hh, Ek, <- Hw_Hz, <- Hhash. apply hashss_reduced. }
    rewrite Eh, Z.eqb_refl. rewrite (hasprefix_refines fold lower FF WF p _ sub Hwin Hwsub). cbn [bind]. rewrite Hm. reflexivity.
  - destruct (h =? hashss); [|reflexivity].
    rewrite (hasprefix_refines fold lower FF WF p _ sub Hwin Hwsub). cbn [bind]. rewrite Hm. reflexivity.
Qed.

Lemma no_match_beyond a : (rune_count s < a + N)%nat -> match_at s sub a = false.
Proof.
  intros H. unfold SpecIndex.match_at. destruct (prefixb (K sub) (skipn a (K s))) eqn:E; [|reflexivity].
  apply prefixb_length in E. rewrite skipn_length, (key_length fold s) in E. fold N in E. pose proof N_pos. lia.
Qed.

Lemma index_at a :
  match_at s sub a = true -> (forall a', (a' < a)%nat -> match_at s sub a' = false) -> (a <= rune_count s)%nat ->
  index fold s sub = Z.of_nat (off s a).
Proof.
  intros M L Ha. unfold index. rewrite (find_first_least (K sub) (K s) a M L); [reflexivity|]. rewrite (key_length fold). exact Ha.
Qed.

Lemma index_none : (forall a, match_at s sub a = false) -> index fold s sub = -1.
Proof. intros H. unfold index. rewrite (find_first_absent (K sub) (K s) H). reflexivity. Qed.

(* the rolling loop from a window at boundary a whose hash is h *)
Lemma rk_roll_ok p fuel a h :
  (a + N <= rune_count s)%nat -> w32 h = h -> w32 h = w32 (Hz (W a) 0) ->
  (forall a', (a' <= a)%nat -> match_at s sub a' = false) ->
  (rune_count s - a < fuel)%nat ->
  rk_roll fold lower pr p fuel s sub hashss pow (Z.of_nat (off s a)) (Z.of_nat (off s (a + N))) h = Ok (index fold s sub).
Proof.
  revert a h. induction fuel as [|f IH]; intros a h Ha Hr Hh Hno Hf; [lia|].
  cbn [rk_roll]. unfold len. pose proof N_pos as Np.
  destruct (Z.of_nat (off s (a + N)) <? Z.of_nat (length s)) eqn:L.
  - assert (Hj : (a + N < rune_count s)%nat).
    { destruct (le_lt_dec (rune_count s) (a + N)) as [Hge|]; [|assumption]. rewrite (off_all s (a + N) Hge) in L. lia. }
    destruct (folded_at s (a + N) Hws Hj) as (Ho0 & Es0 & Ef0).
    destruct (folded_at s a Hws ltac:(lia)) as (Ho1 & Es1 & Ef1).
    rewrite Es0. cbn [bind]. rewrite Ef0. cbn [bind]. rewrite Es1. cbn [bind]. rewrite Ef1. cbn [bind fst snd].
    replace (Z.of_nat (off s (a + N)) + (Z.of_nat (off s (S (a + N))) - Z.of_nat (off s (a + N)))) with (Z.of_nat (off s (S a + N))) by (cbn [Nat.add]; lia).
    replace (Z.of_nat (off s a) + (Z.of_nat (off s (S a)) - Z.of_nat (off s a))) with (Z.of_nat (off s (S a))) by lia.
    set (r0 := nth (a + N) (K s) 0). set (r1 := nth a (K s) 0).
    set (h' := w32 (w32 (w32 (h * pr) + w32 r0) - w32 (pow * w32 r1))).
    rewrite (slice_window s (off s (S a)) (off s (S a + N))) by (try apply off_le; apply off_mono; lia). cbn [bind].
    (* the new hash is the hash of the shifted window *)
    assert (Hh' : w32 h' = w32 (Hz (W (S a)) 0)).
    { unfold h'. rewrite w32_idem.
      assert (EW : W a = r1 :: firstn (N - 1) (skipn (S a) (K s))).
      { unfold W. replace N with (S (N - 1)) at 1 by lia. apply firstn_S_skipn. rewrite (key_length fold). lia. }
      assert (EW' : W (S a) = firstn (N - 1) (skipn (S a) (K s)) ++ [r0]).
      { unfold W. replace N with (S (N - 1)) at 1 by lia. rewrite (firstn_snoc_skipn (K s) (S a) (N - 1) 0) by (rewrite (key_length fold); lia).
        unfold r0. replace (S a + (N - 1))%nat with (a + N)%nat by lia. reflexivity. }
      rewrite EW', (Hz_roll pr r1), <- EW.
      assert (Ln : S (length (firstn (N - 1) (skipn (S a) (K s)))) = N).
      { rewrite firstn_length, skipn_length, (key_length fold). lia. }
      rewrite Ln.
      assert (EA : w32 (w32 (h * pr) + w32 r0) = w32 (Hz (W a) 0 * pr + r0)).
      { rewrite w32_add. rewrite <- (w32_add_l (h * pr)), <- (w32_mul_l h), Hh, w32_mul_l, w32_add_l. reflexivity. }
      assert (EB : w32 (pow * w32 r1) = w32 (r1 * pr ^ Z.of_nat N)).
      { rewrite w32_mul_r, <- w32_mul_l, Hpow, w32_mul_l. f_equal. ring. }
      rewrite EA, EB. apply w32_sub. }
    assert (Hr' : w32 h' = h') by (unfold h'; apply w32_idem).
    pose proof (window_test p (S a) h' ltac:(lia) Hr' Hh') as Wt.
    destruct (if h' =? hashss then HasPrefix fold lower p (slice s (off s (S a)) (off s (S a + N))) sub else Ok false) as [m| |] eqn:Em;
      cbn [bind] in Wt; try discriminate. inversion Wt as [Em']. cbn [bind].
    destruct (match_at s sub (S a)) eqn:M.
    + f_equal. symmetry. apply index_at; [exact M| |lia]. intros a' Ha'. apply Hno. lia.
    + apply IH; try assumption; try lia. intros a' Ha'. destruct (Nat.eq_dec a' (S a)) as [->|]; [exact M|apply Hno; lia].
  - f_equal. symmetry. apply index_none. intros a'.
    destruct (le_lt_dec a' a) as [Hle|Hgt]; [apply Hno; exact Hle|]. apply no_match_beyond.
    assert (rune_count s <= a + N)%nat; [|lia].
    destruct (le_lt_dec (rune_count s) (a + N)) as [|Hlt]; [assumption|].
    pose proof (off_lt s (a + N) (rune_count s) Hlt ltac:(lia)) as O. rewrite (off_all s (rune_count s)) in O by lia. lia.
Qed.

(* strcase with a haystack of fewer code points than the needle: the rolling loop restarts with an empty window *)
Lemma rk_roll_degenerate p fuel a h :
  (a <= rune_count s)%nat -> (rune_count s - a < fuel)%nat ->
  rk_roll fold lower pr p fuel s sub hashss pow (Z.of_nat (off s a)) (Z.of_nat (off s a)) h = Ok (-1).
Proof.
  revert a h. induction fuel as [|f IH]; intros a h Ha Hf; [lia|].
  cbn [rk_roll]. unfold len. destruct (Z.of_nat (off s a) <? Z.of_nat (length s)) eqn:L; [|reflexivity].
  assert (Ha' : (a < rune_count s)%nat).
  { destruct (le_lt_dec (rune_count s) a) as [Hge|]; [|assumption]. rewrite (off_all s a Hge) in L. lia. }
  destruct (folded_at s a Hws Ha') as (Ho & Es & Ef).
  rewrite Es. cbn [bind]. rewrite Ef. cbn [bind fst snd].
  replace (Z.of_nat (off s a) + (Z.of_nat (off s (S a)) - Z.of_nat (off s a))) with (Z.of_nat (off s (S a))) by lia.
  rewrite (slice_window s (off s (S a)) (off s (S a))) by (try apply off_le; lia). cbn [bind].
  assert (Es0 : slice s (off s (S a)) (off s (S a)) = []) by (unfold slice; rewrite Nat.sub_diag; reflexivity).
  rewrite Es0.
  assert (Hp : HasPrefix fold lower p [] sub = Ok false).
  { rewrite (hasprefix_refines fold lower FF WF p [] sub ltac:(constructor) Hwsub). f_equal.
    unfold has_prefix. rewrite key_nil. pose proof N_pos. unfold N in *. destruct (K sub); [cbn in *; lia|reflexivity]. }
  rewrite Hp. destruct (_ =? hashss); cbn [bind]; apply IH; lia.
Qed.

(* everything after hashStrUnicode *)
Lemma rk_body_ok p :
  (do hjn <- rk_init fold lower pr (S (length s)) s 0 0 (Z.of_nat N);
   let '(h, j, nleft) := hjn in
   do m0 <- (if h =? hashss then HasPrefix fold lower p s sub else Ok false);
   if m0 then Ok 0
   else
     let j0 := match p with Str => if nleft =? 0 then j else 0 | Byt => j end in
     rk_roll fold lower pr p (S (length s)) s sub hashss pow 0 j0 h) = Ok (index fold s sub).
Proof.
  pose proof N_pos as Np.
  pose proof (rk_init_ok (S (length s)) s 0 0 (Z.of_nat N) Hws ltac:(lia) ltac:(lia) ltac:(rewrite off_0; lia)) as Ei.
  cbv zeta in Ei. rewrite off_0 in Ei. change (Z.of_nat 0) with 0 in Ei. rewrite Ei. cbn [bind].
  rewrite Nat2Z.id, Nat.sub_0_r, Nat.add_0_l. cbn [skipn].
  pose proof (rune_count_le s) as Rl.
  destruct (le_lt_dec N (rune_count s)) as [Hge|Hlt].
  - (* enough code points: first window, then roll *)
    replace (Nat.min N (rune_count s)) with N by lia.
    change (firstn N (K s)) with (W 0).
    assert (Hr : w32 (Hw (W 0) 0) = Hw (W 0) 0).
    { apply Hw_reduced. intros E. apply (f_equal (@length Z)) in E. rewrite (W_length 0) in E by lia. cbn in E. lia. }
    pose proof (window_test p 0 (Hw (W 0) 0) ltac:(lia) Hr (Hw_Hz pr _ 0)) as Wt.
    rewrite off_0 in Wt. cbn [Nat.add] in Wt.
    (* HasPrefix(s, sub) and HasPrefix(s[:off N], sub) agree: both are "sub matches at 0" *)
    assert (Hfull : (do m0 <- (if Hw (W 0) 0 =? hashss then HasPrefix fold lower p s sub else Ok false); Ok m0) = Ok (match_at s sub 0)).
    { destruct (Hw (W 0) 0 =? hashss) eqn:E.
      - rewrite (hasprefix_refines fold lower FF WF p s sub Hws Hwsub). reflexivity.
      - cbn [bind] in *. exact Wt. }
    destruct (if Hw (W 0) 0 =? hashss then HasPrefix fold lower p s sub else Ok false) as [m0| |] eqn:Em0; cbn [bind] in Hfull; try discriminate.
    inversion Hfull as [Em0']. cbn [bind].
    destruct (match_at s sub 0) eqn:M.
    + f_equal. symmetry. rewrite (index_at 0 M); [rewrite off_0; reflexivity|intros a' Ha'; lia|lia].
    + replace (Z.of_nat N - Z.of_nat N =? 0) with true by lia.
      assert (Ej : (match p with Str => Z.of_nat (off s N) | Byt => Z.of_nat (off s N) end) = Z.of_nat (off s (0 + N))) by (destruct p; reflexivity).
      rewrite Ej. change 0 with (Z.of_nat (off s 0)) at 1.
      apply rk_roll_ok; try assumption; try lia.
      * apply Hw_Hz.
      * intros a' Ha'. assert (a' = 0%nat) by lia. subst. exact M.
  - (* fewer code points than the needle: no match anywhere *)
    replace (Nat.min N (rune_count s)) with (rune_count s) by lia.
    assert (Hnone : forall a, match_at s sub a = false) by (intros a; apply no_match_beyond; lia).
    assert (Hp : HasPrefix fold lower p s sub = Ok false).
    { rewrite (hasprefix_refines fold lower FF WF p s sub Hws Hwsub). f_equal. apply (Hnone 0%nat). }
    rewrite Hp. assert (E0 : forall c : bool, (if c then Ok false else Ok false) = @Ok bool false) by (intros []; reflexivity).
    rewrite E0. cbn [bind].
    replace (Z.of_nat N - Z.of_nat (rune_count s) =? 0) with false by lia.
    rewrite (index_none Hnone).
    destruct p.
    + change 0 with (Z.of_nat (off s 0)). apply rk_roll_degenerate; lia.
    + rewrite (off_all s (rune_count s)) by lia. cbn [rk_roll]. unfold len. replace (Z.of_nat (length s) <? Z.of_nat (length s)) with false by lia. reflexivity.
Qed.

End Roll.

Theorem rabinkarp_refines p s sub :
  wf s -> wf sub -> sub <> [] ->
  indexRabinKarpUnicode fold lower pr p s sub = Ok (index fold s sub).
Proof.
  intros Hws Hwsub Hne. unfold indexRabinKarpUnicode.
  destruct (hashStr_ok sub Hwsub) as (pw & Eh & Hpw). rewrite Eh. cbn [bind].
  eapply rk_body_ok; try eassumption; reflexivity.
Qed.

End RK.
