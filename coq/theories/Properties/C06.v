(* C06 — total and memory-safe on arbitrary bytes: no panic, no hang,
   offsets in range.  For the functions with a structure-faithful model
   (Impl.v: bounds-checked, fuelled) the model returns Ok — neither Panic
   nor OutOfFuel — on every input; for every function the value it returns
   (the Spec value, tied to the code by correspondence, where a panic is
   observed as a disagreement) lies in the stated range. *)
From Strcase Require Import Base Utf8 Utf8Facts Spec SpecFacts SpecIndex SpecAffix SpecChars Impl Refine_Compare Fold FoldFacts FoldTables FoldFacts121 Safety.

Theorem C06_compare_total : forall p s t, wf s -> wf t ->
  exists v, Compare fold121 (lower_pkg p) p s t = Ok v /\ (v = -1 \/ v = 0 \/ v = 1).
Proof. exact compare_total. Qed.
Print Assumptions C06_compare_total.

Theorem C06_equalfold_total : forall p s t, wf s -> wf t ->
  exists v, EqualFold fold121 (lower_pkg p) p s t = Ok v.
Proof. exact equalfold_total. Qed.

Theorem C06_index_range : forall s t, -1 <= index fold121 s t <= len s.
Proof. exact (index_range fold121). Qed.
Theorem C06_last_index_range : forall s t, -1 <= last_index fold121 s t <= len s.
Proof. exact (last_index_range fold121). Qed.
Theorem C06_index_rune_range : forall s r, -1 <= index_rune fold121 s r <= len s.
Proof. exact (index_rune_range fold121). Qed.
Theorem C06_index_any_range : forall s c, -1 <= index_any fold121 s c <= len s /\ -1 <= last_index_any fold121 s c <= len s.
Proof. exact any_ranges. Qed.
Theorem C06_byte_ranges : forall s c,
  -1 <= index_byte s c <= len s /\ -1 <= last_index_byte s c <= len s /\
  -1 <= index_byte_ascii s c <= len s /\ -1 <= index_non_ascii s <= len s.
Proof. exact byte_ranges. Qed.
(* every returned sub-slice is a sub-slice of s: 0 <= lo <= hi <= len s *)
Theorem C06_slices_in_range : forall s t,
  slice_ok s (trim_prefix fold121 s t) /\ slice_ok s (trim_suffix fold121 s t) /\
  slice_ok s (fst (fst (cut fold121 s t))) /\ slice_ok s (snd (fst (cut fold121 s t))).
Proof. exact slices_in_range. Qed.
Print Assumptions C06_slices_in_range.
Theorem C06_count_nonneg : forall s t, 0 <= count fold121 s t.
Proof. exact (count_nonneg fold121). Qed.

(* the D3 witness no longer panics in the model of Count's specification *)
(* ---- totality of the models of all 23 exported functions (corollaries of the refinement
   theorems): on every byte string, for both package shapes and every configuration, the
   structure-faithful model returns Ok — no bounds check of a slice expression fails (Panic is
   a visible result of the model) and no loop exceeds its fuel (OutOfFuel likewise) ---- *)
From Strcase Require Import Impl2 Impl3 Impl4 Impl5 Impl6 Impl7 Instances Totality.

Theorem C06_total_two_strings : forall p native cutover maxBruteForce maxLen primeRK nativeMax rtMaxLen, nativeMax <= rtMaxLen -> forall s t, wf s -> wf t ->
  total (Compare fold121 (lower_pkg p) p s t) /\ total (EqualFold fold121 (lower_pkg p) p s t) /\
  total (HasPrefix fold121 (lower_pkg p) p s t) /\ total (TrimPrefix fold121 (lower_pkg p) p s t) /\
  total (CutPrefix fold121 (lower_pkg p) p s t) /\
  total (HasSuffix fold121 (lower_pkg p) s t) /\ total (TrimSuffix fold121 (lower_pkg p) s t) /\
  total (CutSuffix fold121 (lower_pkg p) s t) /\
  total (Impl6.Index native cutover fold121 (lower_pkg p) fold_map121 fold_map_excl121 upper_lower121 maxBruteForce maxLen primeRK nativeMax rtMaxLen p s t) /\
  total (Impl6.Contains native cutover fold121 (lower_pkg p) fold_map121 fold_map_excl121 upper_lower121 maxBruteForce maxLen primeRK nativeMax rtMaxLen p s t) /\
  total (Impl7.LastIndex fold121 (lower_pkg p) fold_map121 upper_lower121 primeRK p s t) /\
  total (Count (Impl6.Index native cutover fold121 (lower_pkg p) fold_map121 fold_map_excl121 upper_lower121 maxBruteForce maxLen primeRK nativeMax rtMaxLen p) p s t) /\
  total (Cut (Impl6.Index native cutover fold121 (lower_pkg p) fold_map121 fold_map_excl121 upper_lower121 maxBruteForce maxLen primeRK nativeMax rtMaxLen p) p s t) /\
  total (Impl7.IndexAny native cutover fold_map121 upper_lower121 s t) /\
  total (Impl7.ContainsAny native cutover fold_map121 upper_lower121 s t) /\
  total (Impl7.LastIndexAny native cutover fold_map121 upper_lower121 s t).
Proof. exact total_ss. Qed.
Print Assumptions C06_total_two_strings.

(* at the thresholds the source has now: the one call with a CPU-dependent contract (the runtime's native Index,
   "requires len(b) <= MaxLen", AVX2 instructions beyond it) is never made outside it, whatever MaxLen the platform has *)
From Strcase Require SrcConsts.
From StrcaseGen Require Oracle.
Theorem C06_index_total_at_the_source_constants : forall p native cutover rtMaxLen s t,
  Oracle.rt_maxlen_min <= rtMaxLen -> wf s -> wf t ->
  total (Impl6.Index native cutover fold121 (lower_pkg p) fold_map121 fold_map_excl121 upper_lower121
           (SrcConsts.src_maxBruteForce p) (SrcConsts.src_maxLen p) (SrcConsts.src_primeRK p) (SrcConsts.src_nativeMax p) rtMaxLen p s t).
Proof.
  intros p native cutover rtMaxLen s t Hrt Hs Ht.
  exact (proj1 (proj2 (proj2 (proj2 (proj2 (proj2 (proj2 (proj2 (proj2
    (total_ss p native cutover _ _ _ _ rtMaxLen (SrcConsts.native_contract_src_le p rtMaxLen Hrt) s t Hs Ht)))))))))).
Qed.
Print Assumptions C06_index_total_at_the_source_constants.

Theorem C06_total_string_rune_byte : forall native cutover s r c, wf s -> 0 <= c < 256 ->
  total (Impl5.IndexRune native cutover fold_map121 upper_lower121 s r) /\
  total (Impl5.ContainsRune native cutover fold_map121 upper_lower121 s r) /\
  total (Impl5.IndexByte native cutover s c) /\ total (Impl5.IndexByteASCII s c) /\ total (Impl5.LastIndexByte s c) /\
  total (Impl7.IndexNonASCII s) /\ total (Impl7.ContainsNonASCII s).
Proof. exact total_sr. Qed.
Print Assumptions C06_total_string_rune_byte.

Example C06_example : count fold121 [255; 255] [255; 255] = 1.
Proof. vm_compute. reflexivity. Qed.
