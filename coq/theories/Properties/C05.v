(* C05 — no exported function ever allocates heap memory; results are views.
   PARTIAL by nature (level: other).  What is proved: (1) over the effect
   summary T3 regenerates from /repo — static call graph, every
   allocation-capable construct with the gc compiler's own escape verdict,
   every call leaving the repository — no trace of any of the 46 exported
   functions contains an event that may allocate (EffectSem.exec
   over-approximates loops, branches and recursion); (2) Trim*/Cut* results
   of Spec are (lo, hi) positions inside s.  That the summary
   over-approximates the compiled program (T3, the allow-list of leaf
   functions, the compiler honouring its printed escape decisions) is
   assumed and measured: mallocs per call over a sweep of shapes and sizes
   under three CPU-feature configurations. *)
From Strcase Require Import Base Spec EffectSem EffectFacts Safety FoldFacts121a.
From Coq Require Import String List.

Theorem C05_no_alloc_event : forall f tr,
  In f roots -> exec P f tr -> forall e, In e tr -> bad_alloc e = false.
Proof. exact no_alloc_event. Qed.
Print Assumptions C05_no_alloc_event.

Theorem C05_roots_are_the_exported_functions :
  length Effects.strcase_exported = 23%nat /\ length Effects.bytcase_exported = 23%nat.
Proof. exact roots_count. Qed.

Theorem C05_results_are_views : forall s t,
  slice_ok s (trim_prefix fold121 s t) /\ slice_ok s (trim_suffix fold121 s t) /\
  slice_ok s (fst (fst (cut fold121 s t))) /\ slice_ok s (snd (fst (cut fold121 s t))).
Proof. exact slices_in_range. Qed.
