(* C08 — LastIndex returns exactly the rightmost case-insensitive match
   (conventions as in C01.v). *)
From Strcase Require Import Base Utf8 Utf8Facts Spec SpecFacts SpecIndex Fold FoldFacts FoldTables FoldFacts121 Impl Impl7 Instances.

Theorem C08_last_index_rightmost : forall s sub i,
  last_index fold121 s sub = i -> 0 <= i ->
  exists k j, i = Z.of_nat (off s k) /\ (k <= j <= rune_count s)%nat /\
    equal_fold fold121 (slice s (off s k) (off s j)) sub = true /\
    forall k' j', (k' <= j' <= rune_count s)%nat ->
      equal_fold fold121 (slice s (off s k') (off s j')) sub = true -> (off s k' <= off s k)%nat.
Proof. exact (last_index_found fold121). Qed.
Print Assumptions C08_last_index_rightmost.

Theorem C08_last_index_none : forall s sub,
  last_index fold121 s sub = -1 ->
  forall k j, (k <= j <= rune_count s)%nat -> equal_fold fold121 (slice s (off s k) (off s j)) sub = false.
Proof. exact (last_index_not_found fold121). Qed.
Print Assumptions C08_last_index_none.

Theorem C08_last_index_empty : forall s, last_index fold121 s [] = len s.
Proof. exact (last_index_empty fold121). Qed.

Theorem C08_last_index_range : forall s sub, -1 <= last_index fold121 s sub <= len s.
Proof. exact (last_index_range fold121). Qed.

(* the same matches as Index (never a position Index would not consider a
   match: both are characterised by the same slice predicate), Index first *)
Theorem C08_same_matches : forall s sub, 0 <= index fold121 s sub <-> 0 <= last_index fold121 s sub.
Proof. exact (index_iff_last_index fold121). Qed.
Theorem C08_index_le_last_index : forall s sub,
  0 <= index fold121 s sub -> index fold121 s sub <= last_index fold121 s sub.
Proof. exact (index_le_last_index fold121). Qed.
Print Assumptions C08_index_le_last_index.

(* the structure-faithful model of LastIndex (Impl7.LastIndex: LastIndexByte for one ASCII byte,
   lastIndexRune for one code point, the length pre-check, indexRabinKarpRevUnicode with
   hashStrRevUnicode and the DecodeLastRune / ASCII-shortcut steps) computes Spec.last_index —
   both packages, every prime, every pair of byte strings, never panicking, never out of fuel *)
Theorem C08_lastindex_refines : forall p primeRK s sub, wf s -> wf sub ->
  Impl7.LastIndex fold121 (lower_pkg p) fold_map121 upper_lower121 primeRK p s sub = Ok (last_index fold121 s sub).
Proof. exact lastindex_refines121. Qed.
Print Assumptions C08_lastindex_refines.

Theorem C08_rabinkarp_rev_refines : forall p primeRK s sub, wf s -> wf sub -> sub <> [] ->
  Impl7.indexRabinKarpRevUnicode fold121 (lower_pkg p) primeRK s sub = Ok (last_index fold121 s sub).
Proof. exact rabinkarp_rev_refines121. Qed.
Print Assumptions C08_rabinkarp_rev_refines.

Example C08_example :
  last_index fold121 [107; 75; 226; 132; 170; 120] [75] = 2 /\
  last_index fold121 [97; 98; 97; 98; 97] [65; 66; 65] = 2 /\
  last_index fold121 [97] [226; 132; 170; 226; 132; 170] = -1.
Proof. vm_compute. auto. Qed.
