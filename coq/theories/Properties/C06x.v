(* C06x — supporting theorems for C06 and C18 (not part of their own obligation sets, which stay independent of
   the assembly proofs): what the kernel theorems of C13 say about memory.  For each of the three amd64 kernels
   (default preprocessing, string entry points; the other entry points and the v3 preprocessing are the same
   statement about their theorems), at every placement: the run terminates with a result AND the recorded
   accesses of that run are good — every load lies in a 4 KiB page that holds a byte of the argument (so it
   cannot fault, whatever is mapped around the argument) and every store goes to the result slot (the argument
   and everything else in memory is never written). *)
From Coq Require Import List ZArith.
From Strcase Require Import Base Spec X86 X86Safety X86NonASCII X86IndexByte X86Count.
From StrcaseGen Require Import AsmProg.
Open Scope Z_scope.

Definition safe_kernel (P : list instr) (entry : nat) (need_popcnt : bool) : Prop :=
  forall A s junk slot avx2 popcnt c r0,
    4096 <= A -> A + X86.len s < two63 -> wf s -> (need_popcnt = true -> popcnt = true) ->
    exists fuel v, X86.run A s junk slot avx2 popcnt c P fuel entry (init r0) = Done (Some v) /\
                   good A s slot (accesses A s junk slot avx2 popcnt c P fuel entry (init r0)).

Theorem C06x_index_non_ascii_memory_safe :
  safe_kernel prog_index_non_ascii_go122_amd64 entry_index_non_ascii_go122_amd64_IndexNonASCII false.
Proof.
  intros A s junk slot avx2 popcnt c r0 HA Hl Hw _.
  destruct (index_non_ascii_str A s junk slot avx2 popcnt c HA Hl Hw r0) as [fuel H].
  exists fuel, (X86Facts.fh s). split; [exact H|]. exact (done_is_memory_safe A s junk slot avx2 popcnt c _ fuel _ _ _ H).
Qed.
Print Assumptions C06x_index_non_ascii_memory_safe.

Theorem C06x_index_byte_memory_safe :
  safe_kernel prog_indexbyte_go122_amd64 entry_indexbyte_go122_amd64_IndexByteString false.
Proof.
  intros A s junk slot avx2 popcnt c r0 HA Hl Hw _.
  destruct (index_byte_asm_str A s junk slot avx2 popcnt c HA Hl Hw r0) as [fuel H].
  exists fuel, (k_index_byte s (c mod 256)). split; [exact H|]. exact (done_is_memory_safe A s junk slot avx2 popcnt c _ fuel _ _ _ H).
Qed.

Theorem C06x_count_memory_safe :
  safe_kernel prog_count_go122_amd64 entry_count_go122_amd64_CountString true.
Proof.
  intros A s junk slot avx2 popcnt c r0 HA Hl Hw Hp. specialize (Hp eq_refl).
  destruct (count_asm_str A s junk slot avx2 popcnt c HA Hl Hw r0 Hp) as [fuel H].
  exists fuel, (k_count s (c mod 256)). split; [exact H|]. exact (done_is_memory_safe A s junk slot avx2 popcnt c _ fuel _ _ _ H).
Qed.
Print Assumptions C06x_count_memory_safe.
