(* C07x — supporting theorems for C07 (not part of C07's own obligation set, which is kept
   independent of the orbit facts of the tables: see DESIGN 0.4).  The strcase-shaped and the
   bytcase-shaped structure-faithful models of every function whose source differs between the
   two packages return the same value on every pair of byte strings, in every configuration:
   both are proved to compute the same Spec function. *)
From Strcase Require Import Base Utf8 Spec Impl Impl2 Impl3 Impl6 Impl7 Fold FoldFacts FoldTables FoldFacts121 Instances Totality.

Theorem C07x_model_parity : forall native cutover maxBruteForce maxLen primeRK nativeMax rtMaxLen, nativeMax <= rtMaxLen -> forall s t, wf s -> wf t ->
  Compare fold121 (lower_pkg Str) Str s t = Compare fold121 (lower_pkg Byt) Byt s t /\
  EqualFold fold121 (lower_pkg Str) Str s t = EqualFold fold121 (lower_pkg Byt) Byt s t /\
  HasPrefix fold121 (lower_pkg Str) Str s t = HasPrefix fold121 (lower_pkg Byt) Byt s t /\
  TrimPrefix fold121 (lower_pkg Str) Str s t = TrimPrefix fold121 (lower_pkg Byt) Byt s t /\
  CutPrefix fold121 (lower_pkg Str) Str s t = CutPrefix fold121 (lower_pkg Byt) Byt s t /\
  HasSuffix fold121 (lower_pkg Str) s t = HasSuffix fold121 (lower_pkg Byt) s t /\
  TrimSuffix fold121 (lower_pkg Str) s t = TrimSuffix fold121 (lower_pkg Byt) s t /\
  CutSuffix fold121 (lower_pkg Str) s t = CutSuffix fold121 (lower_pkg Byt) s t /\
  Impl6.Index native cutover fold121 (lower_pkg Str) fold_map121 fold_map_excl121 upper_lower121 maxBruteForce maxLen primeRK nativeMax rtMaxLen Str s t =
    Impl6.Index native cutover fold121 (lower_pkg Byt) fold_map121 fold_map_excl121 upper_lower121 maxBruteForce maxLen primeRK nativeMax rtMaxLen Byt s t /\
  Impl7.LastIndex fold121 (lower_pkg Str) fold_map121 upper_lower121 primeRK Str s t =
    Impl7.LastIndex fold121 (lower_pkg Byt) fold_map121 upper_lower121 primeRK Byt s t /\
  Count (Impl6.Index native cutover fold121 (lower_pkg Str) fold_map121 fold_map_excl121 upper_lower121 maxBruteForce maxLen primeRK nativeMax rtMaxLen Str) Str s t =
    Count (Impl6.Index native cutover fold121 (lower_pkg Byt) fold_map121 fold_map_excl121 upper_lower121 maxBruteForce maxLen primeRK nativeMax rtMaxLen Byt) Byt s t /\
  Cut (Impl6.Index native cutover fold121 (lower_pkg Str) fold_map121 fold_map_excl121 upper_lower121 maxBruteForce maxLen primeRK nativeMax rtMaxLen Str) Str s t =
    Cut (Impl6.Index native cutover fold121 (lower_pkg Byt) fold_map121 fold_map_excl121 upper_lower121 maxBruteForce maxLen primeRK nativeMax rtMaxLen Byt) Byt s t.
Proof. exact parity_ss. Qed.
Print Assumptions C07x_model_parity.
