(* C17 — the API agrees with itself on every input (all byte strings). *)
From Strcase Require Import Base Utf8 Utf8Facts Spec SpecFacts SpecIndex SpecAffix Fold FoldFacts FoldTables FoldFacts121.

Theorem C17_contains_index : forall s t, contains fold121 s t = (0 <=? index fold121 s t).
Proof. exact (contains_index fold121). Qed.
Theorem C17_contains_last_index : forall s t, contains fold121 s t = (0 <=? last_index fold121 s t).
Proof. exact (contains_iff_last_index fold121). Qed.
Theorem C17_contains_count : forall s t, contains fold121 s t = (0 <? count fold121 s t).
Proof. exact (contains_iff_count fold121). Qed.
Theorem C17_contains_cut : forall s t, contains fold121 s t = snd (cut fold121 s t).
Proof. exact (contains_iff_cut fold121). Qed.
Theorem C17_index_le_last_index : forall s t,
  0 <= index fold121 s t -> index fold121 s t <= last_index fold121 s t.
Proof. exact (index_le_last_index fold121). Qed.
Print Assumptions C17_contains_count.

Theorem C17_has_prefix_index0 : forall s t, has_prefix fold121 s t = (index fold121 s t =? 0).
Proof. exact (has_prefix_iff_index0 fold121). Qed.
Theorem C17_has_prefix_cut_prefix : forall s t, snd (cut_prefix fold121 s t) = has_prefix fold121 s t.
Proof. reflexivity. Qed.
Theorem C17_has_prefix_trim : forall s t,
  has_prefix fold121 s t = negb (fst (trim_prefix fold121 s t) =? 0) || (len t =? 0).
Proof. exact (has_prefix_iff_trim fold121). Qed.
Print Assumptions C17_has_prefix_trim.

Theorem C17_has_suffix_last_index : forall s t,
  has_suffix fold121 s t = true <->
  exists i, last_index fold121 s t = Z.of_nat i /\ (i <= length s)%nat /\
            equal_fold fold121 (skipn i s) t = true.
Proof. exact (has_suffix_iff_last_index fold121). Qed.
Theorem C17_has_suffix_cut_suffix : forall s t, snd (cut_suffix fold121 s t) = has_suffix fold121 s t.
Proof. reflexivity. Qed.
Print Assumptions C17_has_suffix_last_index.

Theorem C17_equal_fold_compare : forall s t, compare fold121 s t = 0 <-> equal_fold fold121 s t = true.
Proof. exact (compare_zero_iff_equal_fold fold121). Qed.
Theorem C17_equal_fold_prefix_suffix : forall s t,
  equal_fold fold121 s t = true <->
  has_prefix fold121 s t = true /\ has_suffix fold121 s t = true /\ rune_count s = rune_count t.
Proof. exact (equal_fold_iff_prefix_suffix fold121). Qed.
Print Assumptions C17_equal_fold_prefix_suffix.

Theorem C17_contains_rune : forall s r, contains_rune fold121 s r = (0 <=? index_rune fold121 s r).
Proof. reflexivity. Qed.
Theorem C17_contains_any : forall s c, contains_any fold121 s c = (0 <=? index_any fold121 s c).
Proof. reflexivity. Qed.
Theorem C17_contains_non_ascii : forall s, contains_non_ascii s = (0 <=? index_non_ascii s).
Proof. reflexivity. Qed.

(* searching for a code point is searching for its encoding; searching for an ASCII byte is
   searching for the one-byte string *)
From Strcase Require Import SpecRel2.
Theorem C17_index_rune_is_index : forall s r, valid_rune r = true ->
  index_rune fold121 s r = index fold121 s (encode r).
Proof. exact (index_rune_is_index fold121). Qed.
Print Assumptions C17_index_rune_is_index.

Theorem C17_index_rune_is_index_any : forall s r, valid_rune r = true ->
  index_rune fold121 s r = index_any fold121 s (encode r).
Proof. exact (index_rune_is_index_any fold121). Qed.

Theorem C17_index_byte_is_index : forall s c, wf s -> 0 <= c < 128 -> index_byte s c = index fold121 s [c].
Proof. exact (index_byte_is_index fold121 ascii_cands_exact). Qed.
Print Assumptions C17_index_byte_is_index.
