(* C03 — code-point equivalence is exactly Unicode simple folding, for every
   code point; tables well-formed.  All statements are over the data
   regenerated from /repo (coq/gen/Tables121.v, Tables116.v) and the
   toolchain oracle dumped on the same run (coq/gen/Oracle.v). *)
From Strcase Require Import Base Utf8 Fold FoldFacts FoldTables FoldFacts121 FoldFacts116.
From StrcaseGen Require Tables121 Tables116 Oracle.

(* a == b for the package iff same SimpleFold orbit, all int32 runes *)
Theorem C03_fold_orbit_exact : forall a b, int32 a -> int32 b ->
  (case_fold T121 a = case_fold T121 b <-> rep R121 a = rep R121 b).
Proof. exact fold121_orbit_exact. Qed.
Print Assumptions C03_fold_orbit_exact.

(* values outside the Unicode range, surrogates, U+FFFD, U+0130, U+0131
   fold only to themselves and nothing else folds to them *)
Theorem C03_alone : forall r x, int32 r -> int32 x ->
  (r < 0 \/ 1114111 < r \/ 55296 <= r <= 57343 \/ r = 65533 \/ r = 304 \/ r = 305) ->
  (case_fold T121 x = case_fold T121 r <-> x = r).
Proof.
  intros r x Hr Hx H. apply alone_in_orbit; try assumption.
  destruct H as [H|[H|[H|[H|[H|H]]]]]; try (apply nonmember_outside; lia);
    subst r; apply nonmember_special.
Qed.
Print Assumptions C03_alone.

Theorem C03_idempotent : forall r, int32 r -> case_fold T121 (case_fold T121 r) = case_fold T121 r.
Proof. exact fold121_idempotent. Qed.

(* K = k = U+212A, S = s = U+017F *)
Example C03_kelvin :
  case_fold T121 75 = case_fold T121 107 /\ case_fold T121 8490 = case_fold T121 107 /\
  case_fold T121 83 = case_fold T121 115 /\ case_fold T121 383 = case_fold T121 115.
Proof. vm_compute. auto. Qed.

Theorem C03_version : Tables121.unicode_version = Oracle.toolchain_version.
Proof. exact version_matches. Qed.

(* every entry sits at the slot its hash selects; the arrays are large enough
   for every hash value (both table files) *)
Theorem C03_slots_121 : chk_slots T121 = true.
Proof. exact slots121. Qed.
Theorem C03_slots_116 : chk_slots T116 = true.
Proof. exact slots116. Qed.

(* each file encodes exactly the recorded UCD C+S set (SHA-256 of the
   From-sorted pairs as gentables computes it, recomputed in Gallina) *)
Theorem C03_ucd_hash_121 : case_fold_hash T121 = Tables121.recorded_case_fold_hash.
Proof. exact ucd_hash_matches. Qed.
Theorem C03_ucd_hash_116 : case_fold_hash T116 = Tables116.recorded_case_fold_hash.
Proof. exact ucd_hash_matches116. Qed.
Print Assumptions C03_ucd_hash_116.

Theorem C03_unicode13_subset_unicode15 : pairs_subset T116 T121 = true.
Proof. exact u13_subset_u15. Qed.

Theorem C03_idempotent_116 : forall r, int32 r -> case_fold T116 (case_fold T116 r) = case_fold T116 r.
Proof. exact fold116_idempotent. Qed.
