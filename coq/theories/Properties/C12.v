(* C12 — Count counts greedy non-overlapping matches; Cut splits around the
   first one. *)
From Strcase Require Import Base Utf8 Utf8Facts Spec SpecFacts SpecIndex SpecAffix Fold FoldFacts FoldTables FoldFacts121.

Theorem C12_count_empty : forall s, count fold121 s [] = Z.of_nat (rune_count s) + 1.
Proof. exact (count_empty fold121). Qed.

(* repeatedly take the leftmost match (find_first = the k of Index, C01) and
   resume immediately after its last code point *)
Theorem C12_count_greedy : forall s sub, sub <> [] ->
  count fold121 s sub =
  match find_first (key fold121 sub) (key fold121 s) 0 with
  | None => 0
  | Some k => 1 + count fold121 (skipn (off s (k + length (key fold121 sub))) s) sub
  end.
Proof. exact (count_greedy fold121). Qed.
Print Assumptions C12_count_greedy.

Theorem C12_cut_found : forall s sep,
  0 <= index fold121 s sep ->
  exists k j, index fold121 s sep = Z.of_nat (off s k) /\ (k <= j <= rune_count s)%nat /\
    equal_fold fold121 (slice s (off s k) (off s j)) sep = true /\
    cut fold121 s sep = ((0, Z.of_nat (off s k)), (Z.of_nat (off s j), len s), true).
Proof. exact (cut_found fold121). Qed.
Print Assumptions C12_cut_found.

Theorem C12_cut_not_found : forall s sep,
  index fold121 s sep = -1 -> cut fold121 s sep = ((0, len s), (0, 0), false).
Proof. exact (cut_not_found fold121). Qed.

(* KKK (Kelvin) vs kk: matches whose byte length differs from len(sub) *)
Example C12_example :
  count fold121 [226;132;170; 226;132;170; 226;132;170] [107; 107] = 1 /\
  count fold121 [97; 97; 97; 97] [65; 65] = 2 /\
  cut fold121 [120; 226;132;170; 121] [75] = ((0, 1), (4, 5), true).
Proof. vm_compute. auto. Qed.

(* ---- the code's own loops (structure-faithful model Impl3.v, both package
   shapes), with the callee Index replaced by its specification (C01), compute
   exactly these Spec functions on all byte strings.  Count's single-ASCII-byte
   kernel path is excluded here (it is C10/C13 material). ---- *)
From Strcase Require Import Impl Impl3 Instances.

Theorem C12_count_refines : forall p s sub, wf s -> wf sub -> (forall c, sub = [c] -> 128 <= c) ->
  Count idx_spec p s sub = Ok (count fold121 s sub).
Proof. exact count_refines_general121. Qed.
Print Assumptions C12_count_refines.

Theorem C12_cut_refines : forall p s sep, wf s -> wf sep ->
  Cut idx_spec p s sep = Ok (cut fold121 s sep).
Proof. exact cut_refines121. Qed.
Print Assumptions C12_cut_refines.

(* the same, with the loops calling the model of Index itself (C01_index_refines) instead of its specification *)
Theorem C12_count_index_refines : forall p native cutover maxBruteForce maxLen primeRK nativeMax rtMaxLen, nativeMax <= rtMaxLen -> forall s sub,
  wf s -> wf sub -> (forall c, sub = [c] -> 128 <= c) ->
  Count (Impl6.Index native cutover fold121 (lower_pkg p) fold_map121 fold_map_excl121 upper_lower121 maxBruteForce maxLen primeRK nativeMax rtMaxLen p) p s sub =
  Ok (count fold121 s sub).
Proof. exact count_index_refines121. Qed.
Print Assumptions C12_count_index_refines.

(* Count on EVERY needle: a needle of one ASCII byte takes the accelerated byte count (its scalar
   definition; C13 ties the kernels to it) plus, for K k S s, the occurrences of U+212A / U+017F *)
Theorem C12_count_full_refines : forall p native cutover maxBruteForce maxLen primeRK nativeMax rtMaxLen, nativeMax <= rtMaxLen -> forall s sub, wf s -> wf sub ->
  Count (Impl6.Index native cutover fold121 (lower_pkg p) fold_map121 fold_map_excl121 upper_lower121 maxBruteForce maxLen primeRK nativeMax rtMaxLen p) p s sub =
  Ok (count fold121 s sub).
Proof. exact count_full_refines121. Qed.
Print Assumptions C12_count_full_refines.

Theorem C12_cut_index_refines : forall p native cutover maxBruteForce maxLen primeRK nativeMax rtMaxLen, nativeMax <= rtMaxLen -> forall s sep, wf s -> wf sep ->
  Cut (Impl6.Index native cutover fold121 (lower_pkg p) fold_map121 fold_map_excl121 upper_lower121 maxBruteForce maxLen primeRK nativeMax rtMaxLen p) p s sep =
  Ok (cut fold121 s sep).
Proof. exact cut_index_refines121. Qed.
Print Assumptions C12_cut_index_refines.
