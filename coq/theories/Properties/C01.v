(* C01 — Index / Contains return exactly the leftmost case-insensitive match.
   Spec.index is the model run against strcase.Index / bytcase.Index by the
   correspondence check; these theorems say what it computes, in the
   property's words: boundaries of s are the offsets [off s k], k <=
   rune_count s; s[i:j] is [slice s i j]; fold-equality is Spec.equal_fold,
   which is strings.EqualFold (C02: spec_equal_fold_eq_std). They hold for
   all byte strings, valid UTF-8 or not. *)
From Strcase Require Import Base Utf8 Utf8Facts Spec SpecFacts SpecIndex Fold FoldFacts FoldTables FoldFacts121 StdSpec Impl Impl6 Instances.

(* a reported position is a match between boundaries, and no match starts earlier *)
Theorem C01_index_leftmost : forall s sub i,
  index fold121 s sub = i -> 0 <= i ->
  exists k j, i = Z.of_nat (off s k) /\ (k <= j <= rune_count s)%nat /\
    equal_fold fold121 (slice s (off s k) (off s j)) sub = true /\
    forall k' j', (k' <= j' <= rune_count s)%nat ->
      equal_fold fold121 (slice s (off s k') (off s j')) sub = true -> (off s k <= off s k')%nat.
Proof. exact (index_found fold121). Qed.
Print Assumptions C01_index_leftmost.

(* -1 exactly when no pair of boundaries delimits a match *)
Theorem C01_index_none : forall s sub,
  index fold121 s sub = -1 ->
  forall k j, (k <= j <= rune_count s)%nat -> equal_fold fold121 (slice s (off s k) (off s j)) sub = false.
Proof. exact (index_not_found fold121). Qed.
Print Assumptions C01_index_none.

Theorem C01_index_range : forall s sub, -1 <= index fold121 s sub <= len s.
Proof. exact (index_range fold121). Qed.

Theorem C01_index_empty : forall s, index fold121 s [] = 0.
Proof. exact (index_empty fold121). Qed.

Theorem C01_contains : forall s sub, contains fold121 s sub = (0 <=? index fold121 s sub).
Proof. exact (contains_index fold121). Qed.

(* fold-equality of the matched text is strings.EqualFold *)
Theorem C01_equal_fold_is_std : forall s t, wf s -> wf t ->
  equal_fold fold121 s t = std_equal_fold R121 s t.
Proof. exact spec_equal_fold_eq_std. Qed.
Print Assumptions C01_equal_fold_is_std.

(* the structure-faithful model of Index (Impl6.Index: the dispatch on the needle's
   length, the length pre-checks, IndexByte / IndexRune for one code point, the native
   search for caseless ASCII needles, bruteForceIndexUnicode, the main loop with its
   candidate jumps and its Rabin-Karp hand-over) computes Spec.index — for both packages,
   both kernel configurations, every cutover function and every value of the thresholds
   maxBruteForce / maxLen / primeRK, on every pair of byte strings, never panicking and
   never running out of fuel *)
Theorem C01_index_refines : forall p native cutover maxBruteForce maxLen primeRK nativeMax rtMaxLen, nativeMax <= rtMaxLen -> forall s sub, wf s -> wf sub ->
  Impl6.Index native cutover fold121 (lower_pkg p) fold_map121 fold_map_excl121 upper_lower121 maxBruteForce maxLen primeRK nativeMax rtMaxLen p s sub =
  Ok (index fold121 s sub).
Proof. exact index_refines121. Qed.
Print Assumptions C01_index_refines.

Theorem C01_contains_refines : forall p native cutover maxBruteForce maxLen primeRK nativeMax rtMaxLen, nativeMax <= rtMaxLen -> forall s sub, wf s -> wf sub ->
  Impl6.Contains native cutover fold121 (lower_pkg p) fold_map121 fold_map_excl121 upper_lower121 maxBruteForce maxLen primeRK nativeMax rtMaxLen p s sub =
  Ok (contains fold121 s sub).
Proof. exact contains_refines121. Qed.
Print Assumptions C01_contains_refines.

(* the two search procedures Index delegates to, on their own *)
Theorem C01_bruteforce_refines : forall p s sub, wf s -> wf sub -> (2 <= rune_count sub)%nat ->
  Impl6.bruteForceIndexUnicode fold121 (lower_pkg p) fold_map_excl121 upper_lower121 p s sub = Ok (index fold121 s sub).
Proof. exact bruteforce_refines121. Qed.
Print Assumptions C01_bruteforce_refines.

Theorem C01_rabinkarp_refines : forall p primeRK s sub, wf s -> wf sub -> sub <> [] ->
  Impl6.indexRabinKarpUnicode fold121 (lower_pkg p) primeRK p s sub = Ok (index fold121 s sub).
Proof. exact rabinkarp_refines121. Qed.
Print Assumptions C01_rabinkarp_refines.

(* non-vacuity: the D1 witness "xxxxxxxxxxxxxxxxxxxx世k" / "世K", and width-changing partners *)
Example C01_example :
  index fold121 (repeat 120 20 ++ [228; 184; 150; 107]) [228; 184; 150; 75] = 20 /\
  index fold121 [97; 226; 132; 170; 98] [107; 66] = 1 /\
  index fold121 [97; 98] [99] = -1.
Proof. vm_compute. auto. Qed.
