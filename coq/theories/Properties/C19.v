(* C19 — a match survives embedding the haystack in a larger text
   (x, s well-formed UTF-8; y, t arbitrary). *)
From Strcase Require Import Base Utf8 Utf8Facts Spec SpecFacts SpecIndex SpecAffix SpecRel Fold FoldFacts FoldTables FoldFacts121.

Theorem C19_index_extend_right : forall s y t i,
  valid_utf8 s = true -> index fold121 s t = i -> 0 <= i -> index fold121 (s ++ y) t = i.
Proof. exact (index_extend_right fold121). Qed.
Print Assumptions C19_index_extend_right.

Theorem C19_index_extend_left : forall x s t i,
  valid_utf8 x = true -> index fold121 s t = i -> 0 <= i ->
  0 <= index fold121 (x ++ s) t <= len x + i.
Proof. exact (index_extend_left fold121). Qed.

Theorem C19_last_index_extend_left : forall x s t i,
  valid_utf8 x = true -> last_index fold121 s t = i -> 0 <= i ->
  last_index fold121 (x ++ s) t = len x + i.
Proof. exact (last_index_extend_left fold121). Qed.

Theorem C19_last_index_extend_right : forall s y t i,
  valid_utf8 s = true -> last_index fold121 s t = i -> 0 <= i -> i <= last_index fold121 (s ++ y) t.
Proof. exact (last_index_extend_right fold121). Qed.

Theorem C19_has_prefix_extend : forall s y t,
  valid_utf8 s = true -> has_prefix fold121 s t = true -> has_prefix fold121 (s ++ y) t = true.
Proof. exact (has_prefix_extend fold121). Qed.

Theorem C19_has_suffix_extend : forall x s t,
  valid_utf8 x = true -> has_suffix fold121 s t = true -> has_suffix fold121 (x ++ s) t = true.
Proof. exact (has_suffix_extend fold121). Qed.

(* greedy leftmost counting is optimal among packings of disjoint matches *)
Theorem C19_count_extend : forall x s y t,
  valid_utf8 x = true -> valid_utf8 s = true -> t <> [] ->
  count fold121 s t <= count fold121 (x ++ s ++ y) t.
Proof. exact (count_extend fold121). Qed.
Print Assumptions C19_count_extend.

(* conversely a match of x+s+y lying wholly inside s is reported for s alone *)
Theorem C19_inner_match : forall x s y t k,
  valid_utf8 x = true -> valid_utf8 s = true ->
  match_at fold121 (x ++ s ++ y) t (rune_count x + k) = true ->
  (k + rune_count t <= rune_count s)%nat ->
  match_at fold121 s t k = true /\ 0 <= index fold121 s t <= Z.of_nat (off s k).
Proof. exact (inner_match_reported fold121). Qed.
Print Assumptions C19_inner_match.

(* the D1 pair: "...世k" and "...世ky" *)
Example C19_example :
  let s := repeat 120 20 ++ [228; 184; 150; 107] in
  valid_utf8 s = true /\ index fold121 s [228; 184; 150; 75] = 20 /\
  index fold121 (s ++ [121]) [228; 184; 150; 75] = 20.
Proof. vm_compute. auto. Qed.
