(* C02 — EqualFold is observationally identical to strings.EqualFold /
   bytes.EqualFold.  StdSpec.equal_fold (the model of the standard library
   function: rune-wise comparison under the toolchain's SimpleFold orbit
   relation, ill-formed bytes as U+FFFD) is validated against the real
   strings.EqualFold / bytes.EqualFold on every case of the C02 run. *)
From Strcase Require Import Base Utf8 Spec SpecFacts Impl Refine_Compare Fold FoldFacts FoldTables FoldFacts121 StdSpec.

Theorem C02_equalfold_refines : forall p s t, wf s -> wf t ->
  EqualFold fold121 (lower_pkg p) p s t = Ok (std_equal_fold R121 s t).
Proof. exact equalfold_eq_std. Qed.
Print Assumptions C02_equalfold_refines.

(* any two ill-formed bytes, and an ill-formed byte and U+FFFD, are equal *)
Theorem C02_illformed_equal : forall a b,
  0 <= a < 256 -> 0 <= b < 256 ->
  fst (decode [a]) = RuneError -> fst (decode [b]) = RuneError ->
  std_equal_fold R121 [a] [b] = true /\ std_equal_fold R121 [a] [239; 191; 189] = true.
Proof. exact illformed_bytes_equal. Qed.
Print Assumptions C02_illformed_equal.

(* strings of different code-point counts are never equal *)
Theorem C02_count_mismatch : forall s t,
  rune_count s <> rune_count t -> std_equal_fold R121 s t = false.
Proof. exact std_equal_fold_count. Qed.
Print Assumptions C02_count_mismatch.

Example C02_example :
  EqualFold fold121 lower_str Str [255] [128] = Ok true /\
  EqualFold fold121 lower_byt Byt [195] [239; 191; 189] = Ok true /\
  EqualFold fold121 lower_str Str [75] [226; 132; 170] = Ok true /\
  EqualFold fold121 lower_str Str [97; 98] [97] = Ok false.
Proof. vm_compute. auto. Qed.
