(* C11 — IndexAny / LastIndexAny / ContainsAny implement case-insensitive
   set membership. *)
From Strcase Require Import Base Utf8 Utf8Facts Spec SpecFacts SpecIndex SpecChars Fold FoldFacts FoldTables FoldFacts121 Impl Impl7 Instances.

Theorem C11_index_any_first : forall s chars i,
  index_any fold121 s chars = i -> 0 <= i ->
  exists k, i = Z.of_nat (off s k) /\ (k < rune_count s)%nat /\
    (exists y, In y (runes chars) /\ fold121 (nth k (runes s) 0) = fold121 y) /\
    forall j, (j < k)%nat -> forall y, In y (runes chars) -> fold121 (nth j (runes s) 0) <> fold121 y.
Proof. exact (index_any_found fold121). Qed.
Print Assumptions C11_index_any_first.

Theorem C11_index_any_none : forall s chars,
  index_any fold121 s chars = -1 ->
  forall x y, In x (runes s) -> In y (runes chars) -> fold121 x <> fold121 y.
Proof. exact (index_any_none fold121). Qed.

Theorem C11_last_index_any_last : forall s chars i,
  last_index_any fold121 s chars = i -> 0 <= i ->
  exists k, i = Z.of_nat (off s k) /\ (k < rune_count s)%nat /\
    (exists y, In y (runes chars) /\ fold121 (nth k (runes s) 0) = fold121 y) /\
    forall j, (k < j)%nat -> (j < rune_count s)%nat ->
      forall y, In y (runes chars) -> fold121 (nth j (runes s) 0) <> fold121 y.
Proof. exact (last_index_any_found fold121). Qed.
Print Assumptions C11_last_index_any_last.

Theorem C11_empty_chars : forall s, index_any fold121 s [] = -1 /\ last_index_any fold121 s [] = -1.
Proof. exact (index_any_empty_chars fold121). Qed.

Theorem C11_contains_any : forall s chars, contains_any fold121 s chars = (0 <=? index_any fold121 s chars).
Proof. reflexivity. Qed.

Theorem C11_first_iff_last : forall s chars,
  0 <= index_any fold121 s chars <-> 0 <= last_index_any fold121 s chars.
Proof. exact (index_any_iff_last fold121). Qed.

(* the structure-faithful models (Impl7: makeASCIISet and the asciiSet byte scan with its bail-out
   when chars contains K k S s and s is not ASCII; the single-character shortcut; the per-character
   IndexRune search with truncation of s; the walk over s testing IndexRune(chars, c); and the
   right-to-left counterparts with DecodeLastRune, LastIndexByte for one ASCII character and the
   one-byte haystack case) compute exactly these Spec functions — every pair of byte strings, every
   cut-over function, both NativeIndex values, never panicking, never out of fuel *)
Theorem C11_indexany_refines : forall native cutover s chars, wf s -> wf chars ->
  Impl7.IndexAny native cutover fold_map121 upper_lower121 s chars = Ok (index_any fold121 s chars).
Proof. exact indexany_refines121. Qed.
Print Assumptions C11_indexany_refines.

Theorem C11_containsany_refines : forall native cutover s chars, wf s -> wf chars ->
  Impl7.ContainsAny native cutover fold_map121 upper_lower121 s chars = Ok (contains_any fold121 s chars).
Proof. exact containsany_refines121. Qed.

Theorem C11_lastindexany_refines : forall native cutover s chars, wf s -> wf chars ->
  Impl7.LastIndexAny native cutover fold_map121 upper_lower121 s chars = Ok (last_index_any fold121 s chars).
Proof. exact lastindexany_refines121. Qed.
Print Assumptions C11_lastindexany_refines.

(* k/K match U+212A, s/S match U+017F and vice versa *)
Example C11_example :
  index_any fold121 [120; 226; 132; 170] [97; 107] = 1 /\
  index_any fold121 [120; 121; 115] [197; 191] = 2 /\
  last_index_any fold121 [75; 120; 226; 132; 170; 121] [107] = 2.
Proof. vm_compute. auto. Qed.
