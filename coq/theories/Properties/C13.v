(* C13 — the byte kernels equal their scalar definition at every length.
   Proved here for every pure-Go kernel body of internal/bytealg (portable
   *_generic.go, the no-POPCNT fallback countGeneric*, the standard-library
   based count_simd.go), unbounded length and any content.  The amd64
   assembly bodies are tied to the same scalar definitions k_index_byte /
   k_count / index_non_ascii by the guard-page sweep (every length 0..200
   and page-crossing lengths in quick, 0..4352 in thorough; all alignments;
   flush against PROT_NONE pages on either side; surroundings filled with
   the needle; all 256x256 needle/data combinations per code path) and,
   for the kernels listed at the end of this file, by a proof about the
   instruction list that tools/asm2prog.py regenerates from the .s files on
   every run, executed by the machine model of X86.v: see DESIGN.md 4.C13. *)
From Strcase Require Import Base Utf8 Spec Kernels X86 X86NonASCII X86IndexByte X86Count X86Erase X86Legacy.
From StrcaseGen Require Import AsmProg.

Theorem C13_index_byte_generic : forall s c, wf s -> 0 <= c < 256 -> index_byte_generic s c = k_index_byte s c.
Proof. exact index_byte_generic_eq. Qed.
Print Assumptions C13_index_byte_generic.
Theorem C13_count_generic : forall s c, wf s -> 0 <= c < 256 -> count_generic s c = k_count s c.
Proof. exact count_generic_eq. Qed.
Theorem C13_count_simd : forall s c, wf s -> 0 <= c < 256 -> count_simd s c = k_count s c.
Proof. exact count_simd_eq. Qed.
Print Assumptions C13_count_simd.
Theorem C13_index_non_ascii_generic : forall s, wf s -> index_non_ascii_generic s = index_non_ascii s.
Proof. exact index_non_ascii_generic_eq. Qed.

(* the scalar definition: the least i with s[i] == c or, for an ASCII letter c, its other case *)
Theorem C13_scalar_index_is_least : forall s c i,
  k_index_byte s c = i -> 0 <= i ->
  byte_match c (nth (Z.to_nat i) s 0) = true /\ i < len s /\
  forall j, (j < Z.to_nat i)%nat -> byte_match c (nth j s 0) = false.
Proof. exact k_index_byte_least. Qed.
Print Assumptions C13_scalar_index_is_least.

Example C13_byte_match :
  byte_match 97 65 = true /\ byte_match 65 97 = true /\ byte_match 64 96 = false /\
  byte_match 193 225 = false /\ byte_match 91 123 = false /\ k_count [97; 65; 225; 98] 65 = 2.
Proof. vm_compute. auto 7. Qed.

(* ---- the amd64 assembly itself (the go1.22+ files, the ones this toolchain assembles) ----
   IndexNonASCII / IndexByteNonASCII: started with arbitrary register contents at either entry point, for every
   argument s placed at any address A >= 4096 (any alignment, any position inside its page), every content [junk]
   of the memory around it, with and without AVX2, the run of the translated instruction list terminates with
   the result slot holding index_non_ascii s.  Done (rather than Fault) also says: every load stayed inside the
   pages that hold a byte of s, the only store went to the result slot, no address computation wrapped. *)
Theorem C13_asm_index_non_ascii : forall A s junk slot avx2 popcnt c r0,
  4096 <= A -> A + X86.len s < two63 -> wf s ->
  (exists fuel, X86.run A s junk slot avx2 popcnt c prog_index_non_ascii_go122_amd64 fuel
                  entry_index_non_ascii_go122_amd64_IndexNonASCII (init r0) = Done (Some (index_non_ascii s))) /\
  (exists fuel, X86.run A s junk slot avx2 popcnt c prog_index_non_ascii_go122_amd64 fuel
                  entry_index_non_ascii_go122_amd64_IndexByteNonASCII (init r0) = Done (Some (index_non_ascii s))).
Proof.
  intros A s junk slot avx2 popcnt c r0 HA Hl Hw. split.
  - exact (index_non_ascii_str A s junk slot avx2 popcnt c HA Hl Hw r0).
  - exact (index_non_ascii_byt A s junk slot avx2 popcnt c HA Hl Hw r0).
Qed.
Print Assumptions C13_asm_index_non_ascii.

(* IndexByte / IndexByteString (indexbyte_go122_amd64.s, 209 instructions: the letter test of the wrappers, the
   body for letters and the body for other needles, each with its small / end-of-page / SSE / AVX2 paths): for
   every needle byte the run ends with the result slot holding the scalar definition k_index_byte s c — the
   least i with s[i] == c or, for an ASCII letter c, s[i] equal to c's other case (C13_scalar_index_is_least). *)
Theorem C13_asm_index_byte : forall A s junk slot avx2 popcnt c r0,
  4096 <= A -> A + X86.len s < two63 -> wf s ->
  (exists fuel, X86.run A s junk slot avx2 popcnt c prog_indexbyte_go122_amd64 fuel
                  entry_indexbyte_go122_amd64_IndexByte (init r0) = Done (Some (k_index_byte s (c mod 256)))) /\
  (exists fuel, X86.run A s junk slot avx2 popcnt c prog_indexbyte_go122_amd64 fuel
                  entry_indexbyte_go122_amd64_IndexByteString (init r0) = Done (Some (k_index_byte s (c mod 256)))).
Proof.
  intros A s junk slot avx2 popcnt c r0 HA Hl Hw. split.
  - exact (index_byte_asm_byt A s junk slot avx2 popcnt c HA Hl Hw r0).
  - exact (index_byte_asm_str A s junk slot avx2 popcnt c HA Hl Hw r0).
Qed.
Print Assumptions C13_asm_index_byte.

Example C13_asm_index_byte_runs :
  X86.run 8149 (repeat 97 37 ++ [75; 98; 107]) (fun _ => 107) 64 true true 107 prog_indexbyte_go122_amd64 300
          entry_indexbyte_go122_amd64_IndexByteString (init (fun _ => 12345)) = Done (Some 37).
Proof. vm_compute. reflexivity. Qed.

(* Count / CountString (count_go122_amd64.s, 271 instructions: POPCNT test, letter test, the counting body for
   letters and the one for other needles, each with its small / end-of-page / SSE loop + masked tail / AVX2
   64-byte loop + masked tail): on a CPU with POPCNT the run ends with the result slot holding the scalar
   definition k_count s c — the number of i with s[i] == c or, for an ASCII letter c, s[i] equal to c's other
   case; without POPCNT the wrapper tail-calls the Go fallback after two instructions (no load, no store), and
   that fallback is C13_count_generic above. *)
Theorem C13_asm_count : forall A s junk slot avx2 c r0,
  4096 <= A -> A + X86.len s < two63 -> wf s ->
  (exists fuel, X86.run A s junk slot avx2 true c prog_count_go122_amd64 fuel
                  entry_count_go122_amd64_Count (init r0) = Done (Some (k_count s (c mod 256)))) /\
  (exists fuel, X86.run A s junk slot avx2 true c prog_count_go122_amd64 fuel
                  entry_count_go122_amd64_CountString (init r0) = Done (Some (k_count s (c mod 256)))) /\
  X86.run A s junk slot avx2 false c prog_count_go122_amd64 3 entry_count_go122_amd64_Count (init r0) = Delegated /\
  X86.run A s junk slot avx2 false c prog_count_go122_amd64 3 entry_count_go122_amd64_CountString (init r0) = Delegated.
Proof.
  intros A s junk slot avx2 c r0 HA Hl Hw. split; [|split; [|split]].
  - exact (count_asm_byt A s junk slot avx2 true c HA Hl Hw r0 eq_refl).
  - exact (count_asm_str A s junk slot avx2 true c HA Hl Hw r0 eq_refl).
  - exact (count_asm_byt_nopopcnt A s junk slot avx2 false c r0 eq_refl).
  - exact (count_asm_str_nopopcnt A s junk slot avx2 false c r0 eq_refl).
Qed.
Print Assumptions C13_asm_count.

Example C13_asm_count_runs :
  X86.run 8149 (repeat 97 70 ++ [75; 98; 107]) (fun _ => 107) 64 true true 107 prog_count_go122_amd64 400
          entry_count_go122_amd64_CountString (init (fun _ => 12345)) = Done (Some 2).
Proof. vm_compute. reflexivity. Qed.

(* ---- the pre-go1.22 file set (count_amd64.s, indexbyte_amd64.s, index_non_ascii_amd64.s) ----
   These files are the go1.22 files without the PCALIGN lines: X86Legacy checks by computation that erasing the
   no-ops of the translated go1.22 programs and renumbering the jump targets gives the translated pre-1.22
   programs, and X86Erase.erase_preserves_done (erasing no-ops preserves the result of every run, for any
   program) carries the three kernel theorems over. *)
Theorem C13_asm_pre122 : forall A s junk slot avx2 c r0,
  4096 <= A -> A + X86.len s < two63 -> wf s ->
  (exists fuel, X86.run A s junk slot avx2 true c prog_index_non_ascii_amd64 fuel entry_index_non_ascii_amd64_IndexNonASCII (init r0)
                = Done (Some (index_non_ascii s))) /\
  (exists fuel, X86.run A s junk slot avx2 true c prog_indexbyte_amd64 fuel entry_indexbyte_amd64_IndexByteString (init r0)
                = Done (Some (k_index_byte s (c mod 256)))) /\
  (exists fuel, X86.run A s junk slot avx2 true c prog_count_amd64 fuel entry_count_amd64_CountString (init r0)
                = Done (Some (k_count s (c mod 256)))).
Proof.
  intros A s junk slot avx2 c r0 HA Hl Hw. split; [|split].
  - exact (legacy_index_non_ascii_str A s junk slot avx2 true c r0 HA Hl Hw).
  - exact (legacy_index_byte_str A s junk slot avx2 true c r0 HA Hl Hw).
  - exact (legacy_count_str A s junk slot avx2 true c r0 HA Hl Hw eq_refl).
Qed.
Print Assumptions C13_asm_pre122.

(* the premises are satisfiable and the machine really runs: a 40-byte argument ending 3 bytes before a page end *)
Example C13_asm_runs :
  X86.run 8149 (repeat 97 37 ++ [200; 98; 99]) (fun _ => 255) 64 true true 0 prog_index_non_ascii_go122_amd64 200
          entry_index_non_ascii_go122_amd64_IndexNonASCII (init (fun _ => 12345)) = Done (Some 37).
Proof. vm_compute. reflexivity. Qed.
