(* C20 — drop-in agreement with strings/bytes on ASCII and caseless text.
   ASCII class: proved here for Compare, EqualFold, Index, Contains,
   LastIndex, HasPrefix, HasSuffix, TrimPrefix, TrimSuffix, CutPrefix,
   CutSuffix, Count, Cut, IndexRune, ContainsRune, IndexAny, ContainsAny,
   LastIndexAny against byte-exact models of the namesakes (StdAscii.v,
   StdAscii2.v).  IndexByte / LastIndexByte are characterised byte-exactly in
   C10.  Caseless class: proved for Index, Contains, LastIndex, HasPrefix,
   HasSuffix, TrimPrefix, TrimSuffix, CutPrefix, CutSuffix, Count, Cut and
   Compare (UTF-8 preserves code-point order) (Caseless.v); the character searches of that class are decided
   by the direct comparison with strings/bytes in the C20 run (see C20_partial note in
   DESIGN.md); EqualFold holds on ALL byte strings by C02. *)
From Strcase Require Import Base Utf8 Utf8Facts Spec SpecFacts SpecIndex SpecAffix Fold FoldFacts FoldTables FoldFacts121 StdSpec StdAscii.

Section A.
Variables s t : bytes.
Hypothesis Hs : ascii s.
Hypothesis Ht : ascii t.

Theorem C20_ascii_compare : compare fold121 s t = std_compare (lower s) (lower t).
Proof. exact (ascii_compare s t Hs Ht). Qed.
Theorem C20_ascii_index : index fold121 s t = std_index (lower s) (lower t).
Proof. exact (ascii_index s t Hs Ht). Qed.
Theorem C20_ascii_contains : contains fold121 s t = std_contains (lower s) (lower t).
Proof. exact (ascii_contains s t Hs Ht). Qed.
Theorem C20_ascii_last_index : last_index fold121 s t = std_last_index (lower s) (lower t).
Proof. exact (ascii_last_index s t Hs Ht). Qed.
Theorem C20_ascii_has_prefix : has_prefix fold121 s t = std_has_prefix (lower s) (lower t).
Proof. exact (ascii_has_prefix s t Hs Ht). Qed.
Theorem C20_ascii_has_suffix : has_suffix fold121 s t = std_has_suffix (lower s) (lower t).
Proof. exact (ascii_has_suffix s t Hs Ht). Qed.
Theorem C20_ascii_trim_prefix : trim_prefix fold121 s t = std_trim_prefix (lower s) (lower t).
Proof. exact (ascii_trim_prefix s t Hs Ht). Qed.
Theorem C20_ascii_trim_suffix : trim_suffix fold121 s t = std_trim_suffix (lower s) (lower t).
Proof. exact (ascii_trim_suffix s t Hs Ht). Qed.
Theorem C20_ascii_count : count fold121 s t = std_count (lower s) (lower t).
Proof. exact (ascii_count s t Hs Ht). Qed.
Theorem C20_ascii_cut : cut fold121 s t = std_cut (lower s) (lower t).
Proof. exact (ascii_cut s t Hs Ht). Qed.
End A.
Print Assumptions C20_ascii_cut.

(* the single-character and set searches, and the Cut* pair (ASCII arguments, ASCII rune) *)
From Strcase Require Import StdAscii2.
Theorem C20_ascii_index_rune : forall s, ascii s -> forall r, 0 <= r < 128 ->
  index_rune fold121 s r = std_index_byte (lower s) (lower_ascii r).
Proof. exact ascii_index_rune. Qed.
Theorem C20_ascii_contains_rune : forall s, ascii s -> forall r, 0 <= r < 128 ->
  contains_rune fold121 s r = (0 <=? std_index_byte (lower s) (lower_ascii r)).
Proof. exact ascii_contains_rune. Qed.
Theorem C20_ascii_index_any : forall s chars, ascii s -> ascii chars ->
  index_any fold121 s chars = std_index_any (lower s) (lower chars).
Proof. exact ascii_index_any. Qed.
Theorem C20_ascii_contains_any : forall s chars, ascii s -> ascii chars ->
  contains_any fold121 s chars = (0 <=? std_index_any (lower s) (lower chars)).
Proof. exact ascii_contains_any. Qed.
Theorem C20_ascii_last_index_any : forall s chars, ascii s -> ascii chars ->
  last_index_any fold121 s chars = std_last_index_any (lower s) (lower chars).
Proof. exact ascii_last_index_any. Qed.
Theorem C20_ascii_cut_prefix : forall s t, ascii s -> ascii t ->
  cut_prefix fold121 s t = (std_trim_prefix (lower s) (lower t), std_has_prefix (lower s) (lower t)).
Proof. exact ascii_cut_prefix. Qed.
Theorem C20_ascii_cut_suffix : forall s t, ascii s -> ascii t ->
  cut_suffix fold121 s t = (std_trim_suffix (lower s) (lower t), std_has_suffix (lower s) (lower t)).
Proof. exact ascii_cut_suffix. Qed.
Print Assumptions C20_ascii_last_index_any.

(* ---- caseless class: well-formed UTF-8 none of whose code points is changed by case folding
   (digits, punctuation, CJK, emoji, symbols ...): the functions are the byte-level namesakes on
   the arguments themselves.  The core is alignment (Caseless.align): in well-formed UTF-8 a
   byte-level occurrence of a well-formed non-empty needle starts and ends on code-point
   boundaries and is an occurrence of its code points, and conversely. ---- *)
From Strcase Require Import Caseless.
Definition caseless121 := caseless fold121.

Theorem C20_caseless_index : forall s t, wf s -> wf t -> caseless121 s -> caseless121 t ->
  index fold121 s t = std_index s t.
Proof. exact (caseless_index fold121). Qed.
Print Assumptions C20_caseless_index.
Theorem C20_caseless_compare : forall s t, wf s -> wf t -> caseless121 s -> caseless121 t ->
  compare fold121 s t = std_compare s t.
Proof. exact (caseless_compare fold121). Qed.
Print Assumptions C20_caseless_compare.
Theorem C20_caseless_contains : forall s t, wf s -> wf t -> caseless121 s -> caseless121 t ->
  contains fold121 s t = std_contains s t.
Proof. exact (caseless_contains fold121). Qed.
Theorem C20_caseless_last_index : forall s t, wf s -> wf t -> caseless121 s -> caseless121 t ->
  last_index fold121 s t = std_last_index s t.
Proof. exact (caseless_last_index fold121). Qed.
Theorem C20_caseless_has_prefix : forall s t, wf s -> wf t -> caseless121 s -> caseless121 t ->
  has_prefix fold121 s t = std_has_prefix s t.
Proof. exact (caseless_has_prefix fold121). Qed.
Theorem C20_caseless_trim_prefix : forall s t, wf s -> wf t -> caseless121 s -> caseless121 t ->
  trim_prefix fold121 s t = std_trim_prefix s t.
Proof. exact (caseless_trim_prefix fold121). Qed.
Theorem C20_caseless_cut_prefix : forall s t, wf s -> wf t -> caseless121 s -> caseless121 t ->
  cut_prefix fold121 s t = (std_trim_prefix s t, std_has_prefix s t).
Proof. exact (caseless_cut_prefix fold121). Qed.
Theorem C20_caseless_has_suffix : forall s t, wf s -> wf t -> caseless121 s -> caseless121 t ->
  has_suffix fold121 s t = std_has_suffix s t.
Proof. exact (caseless_has_suffix fold121). Qed.
Theorem C20_caseless_trim_suffix : forall s t, wf s -> wf t -> caseless121 s -> caseless121 t ->
  trim_suffix fold121 s t = std_trim_suffix s t.
Proof. exact (caseless_trim_suffix fold121). Qed.
Theorem C20_caseless_cut_suffix : forall s t, wf s -> wf t -> caseless121 s -> caseless121 t ->
  cut_suffix fold121 s t = (std_trim_suffix s t, std_has_suffix s t).
Proof. exact (caseless_cut_suffix fold121). Qed.
Theorem C20_caseless_count : forall s t, wf s -> wf t -> caseless121 s -> caseless121 t ->
  count fold121 s t = std_count s t.
Proof. exact (caseless_count fold121). Qed.
Theorem C20_caseless_cut : forall s t, wf s -> wf t -> caseless121 s -> caseless121 t ->
  cut fold121 s t = std_cut s t.
Proof. exact (caseless_cut fold121). Qed.
Print Assumptions C20_caseless_count.

(* the character searches of the caseless class: IndexRune is the byte-level search for the
   encoding; IndexAny / LastIndexAny do not depend on folding at all *)
Theorem C20_caseless_index_rune : forall s, wf s -> caseless121 s -> forall r, valid_rune r = true -> fold121 r = r ->
  index_rune fold121 s r = std_index s (encode r).
Proof. exact (caseless_index_rune fold121). Qed.
Print Assumptions C20_caseless_index_rune.
Theorem C20_caseless_index_any : forall s chars, caseless121 s -> caseless121 chars ->
  index_any fold121 s chars = index_any (fun x => x) s chars.
Proof. exact (caseless_index_any fold121). Qed.
Theorem C20_caseless_last_index_any : forall s chars, caseless121 s -> caseless121 chars ->
  last_index_any fold121 s chars = last_index_any (fun x => x) s chars.
Proof. exact (caseless_last_index_any fold121). Qed.

(* non-vacuity: "世1😀" and "1😀" are caseless *)
Example C20_caseless_example :
  caseless121 [228; 184; 150; 49; 240; 159; 152; 128] /\ caseless121 [49; 240; 159; 152; 128] /\
  index fold121 [228; 184; 150; 49; 240; 159; 152; 128] [49; 240; 159; 152; 128] = 3.
Proof.
  split; [|split]; [| |vm_compute; reflexivity];
    (split; [vm_compute; reflexivity|]; intros x Hx; vm_compute in Hx;
     repeat (destruct Hx as [<-|Hx]; [vm_compute; reflexivity|]); destruct Hx).
Qed.

Theorem C20_equal_fold_all : forall s t, wf s -> wf t ->
  equal_fold fold121 s t = std_equal_fold R121 s t.
Proof. exact spec_equal_fold_eq_std. Qed.

Example C20_example :
  index fold121 [72; 101; 108; 108; 111] [76; 76] = std_index (lower [72; 101; 108; 108; 111]) (lower [76; 76]) /\
  std_index (lower [72; 101; 108; 108; 111]) (lower [76; 76]) = 2.
Proof. vm_compute. auto. Qed.
