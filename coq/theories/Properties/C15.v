(* C15 — ill-formed UTF-8: every bad byte is one U+FFFD, in every function
   alike.  Every Spec function is defined over [segs], the utf8.DecodeRune
   segmentation (Utf8.v, validated against the real package), so all the
   characterisations of C01/C08/C09/C10/C11/C12/C17 hold for arbitrary byte
   strings — none of them has a well-formedness hypothesis.  Here: what the
   segmentation does with ill-formed bytes, and the documented examples. *)
From Strcase Require Import Base Utf8 Utf8Facts Spec SpecFacts SpecIndex SpecAffix SpecChars Fold FoldFacts FoldTables FoldFacts121.

(* a byte that does not start a well-formed sequence is one code point
   U+FFFD of width 1; the only other way to decode U+FFFD is its 3-byte encoding *)
Theorem C15_bad_byte_is_one_rune : forall s,
  s <> [] -> fst (decode s) = RuneError -> snd (decode s) = 1%nat \/ firstn 3 s = [239; 191; 189].
Proof. exact decode_rune_error. Qed.
Print Assumptions C15_bad_byte_is_one_rune.

(* every segment is 1..4 bytes and the segments tile the string *)
Theorem C15_segments_tile : forall s, sum_nat (widths s) = length s.
Proof. exact widths_sum. Qed.

(* all ill-formed bytes and U+FFFD are one equivalence class, alone *)
Theorem C15_rune_error_alone : forall x, int32 x -> (fold121 x = fold121 RuneError <-> x = RuneError).
Proof. exact rune_error_alone. Qed.
Print Assumptions C15_rune_error_alone.

(* a match found by one function is found by all (all byte strings) *)
Theorem C15_one_match_all_match : forall s t,
  contains fold121 s t = (0 <=? index fold121 s t) /\
  contains fold121 s t = (0 <=? last_index fold121 s t) /\
  contains fold121 s t = (0 <? count fold121 s t) /\
  contains fold121 s t = snd (cut fold121 s t).
Proof.
  intros s t. repeat split.
  - exact (contains_iff_last_index fold121 s t).
  - exact (contains_iff_count fold121 s t).
  - exact (contains_iff_cut fold121 s t).
Qed.

(* the documented examples and the former defects D3-D7 *)
Example C15_examples :
  index fold121 [97; 255] [239; 191; 189] = 1 /\
  compare fold121 [255] [239; 191; 189] = 0 /\
  has_prefix fold121 [195] [239; 191; 189] = true /\
  index fold121 [195; 195] [239; 191; 189; 239; 191; 189] = 0 /\
  count fold121 [255; 255] [255; 255] = 1 /\
  count fold121 [97; 239; 191; 189; 98; 254] [255] = 2 /\
  last_index fold121 [255] [254] = 0 /\
  index fold121 ([97; 255; 98; 255] ++ repeat 99 18) [98; 255] = 2.
Proof. vm_compute. auto 10. Qed.
