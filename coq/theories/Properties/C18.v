(* C18 — pure, deterministic and safe for concurrent use; arguments never
   modified.  PARTIAL by nature (level: other).  Proved: (1) over the effect
   summary regenerated from /repo no trace of an exported function contains
   a store to storage that is not function-local (parameters' memory,
   package-level variables incl. the linknamed MaxBruteForce, anything
   behind a pointer), nor a call to anything outside the allow-list of
   read-only leaf functions; (2) the assembly bodies store only through R8,
   which only ever holds the address of the result slot; (3) on the
   abstract shared-memory machine, threads that only read cannot race and
   leave memory unchanged under every interleaving.  Schedules are
   quantified over the abstract machine, not the Go memory model; the tie to
   the runtime is dynamic: argument snapshots on every call, and a -race
   build running mixed functions from many goroutines over shared arrays. *)
From Strcase Require Import EffectSem EffectFacts.
From Coq Require Import String List ZArith.

Theorem C18_no_nonlocal_write_event : forall f tr,
  In f roots -> exec P f tr -> forall e, In e tr -> bad_write e = false.
Proof. exact no_nonlocal_write_event. Qed.
Print Assumptions C18_no_nonlocal_write_event.

Theorem C18_asm_stores_only_result : forallb asm_row_ok AsmStores.asm_rows = true.
Proof. exact asm_stores_only_result. Qed.

Theorem C18_read_only_race_free : forall sched : list (nat * access),
  (forall x, In x sched -> is_write (snd x) = false) ->
  forall x y, In x sched -> In y sched -> ~ conflict x y.
Proof. exact read_only_race_free. Qed.

Theorem C18_read_only_memory_unchanged : forall (sched : list (nat * access)) (vals : list Z) (m : mem_state),
  (forall x, In x sched -> is_write (snd x) = false) ->
  forall k, fold_left (fun mm xa => apply_access mm (snd (fst xa)) (snd xa)) (combine sched vals) m k = m k.
Proof. exact read_only_memory_unchanged. Qed.
Print Assumptions C18_read_only_memory_unchanged.
