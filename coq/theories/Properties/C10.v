(* C10 — single-character searches find the first/last member of the
   character's orbit.  fold-equality is orbit membership by C03
   (fold121_orbit_exact). *)
From Strcase Require Import Base Utf8 Utf8Facts Spec SpecFacts SpecIndex SpecChars Fold FoldFacts FoldTables FoldFacts121.

Theorem C10_index_rune_first : forall s r i,
  index_rune fold121 s r = i -> 0 <= i ->
  valid_rune r = true /\
  exists k, i = Z.of_nat (off s k) /\ (k < rune_count s)%nat /\
    fold121 (nth k (runes s) 0) = fold121 r /\
    forall j, (j < k)%nat -> fold121 (nth j (runes s) 0) <> fold121 r.
Proof. exact (index_rune_found fold121). Qed.
Print Assumptions C10_index_rune_first.

Theorem C10_index_rune_none : forall s r,
  index_rune fold121 s r = -1 ->
  valid_rune r = false \/ forall x, In x (runes s) -> fold121 x <> fold121 r.
Proof. exact (index_rune_none fold121). Qed.

Theorem C10_index_rune_invalid : forall s r, valid_rune r = false -> index_rune fold121 s r = -1.
Proof. exact (index_rune_invalid fold121). Qed.

Theorem C10_index_rune_range : forall s r, -1 <= index_rune fold121 s r <= len s.
Proof. exact (index_rune_range fold121). Qed.

(* fold-equal = same simple-folding orbit of the toolchain *)
Theorem C10_fold_is_orbit : forall a b, int32 a -> int32 b ->
  (fold121 a = fold121 b <-> rep R121 a = rep R121 b).
Proof. exact fold121_orbit_exact. Qed.

Theorem C10_contains_rune : forall s r, contains_rune fold121 s r = (0 <=? index_rune fold121 s r).
Proof. reflexivity. Qed.

(* IndexByte: the first offset at which c, its other ASCII case, or (for
   K k S s) the encoding of U+212A resp. U+017F starts; none earlier *)
Theorem C10_index_byte_first : forall s c i,
  index_byte s c = i -> 0 <= i ->
  exists d, i = Z.of_nat d /\ (d < length s)%nat /\ pat_at (byte_pats c) s d = true /\
            forall j, (j < d)%nat -> pat_at (byte_pats c) s j = false.
Proof. exact index_byte_found. Qed.
Theorem C10_index_byte_none : forall s c,
  index_byte s c = -1 -> forall j, (j < length s)%nat -> pat_at (byte_pats c) s j = false.
Proof. exact index_byte_none. Qed.
Print Assumptions C10_index_byte_first.

(* what IndexByte looks for *)
Example C10_byte_pats :
  byte_pats 75 = [[107]; [75]; [226; 132; 170]] /\ byte_pats 115 = [[115]; [83]; [197; 191]] /\
  byte_pats 97 = [[97]; [65]] /\ byte_pats 49 = [[49]] /\ byte_pats 255 = [[255]].
Proof. vm_compute. auto 6. Qed.

Example C10_example :
  index_rune fold121 [120; 255; 121] 65533 = 1 /\ index_rune fold121 [120; 226; 132; 170] 107 = 1 /\
  index_rune fold121 [120] 55296 = -1 /\ index_byte [120; 197; 191] 83 = 1 /\
  last_index_byte [107; 226; 132; 170; 120] 75 = 1.
Proof. vm_compute. auto 6. Qed.

(* ---- the code's algorithms (structure-faithful models Impl4/Impl5: the
   last-byte search with its cut-over to bytealg.IndexString, the minimum over
   the orbit members supplied by FoldMap / ToUpperLower with truncation of the
   haystack) compute exactly these Spec functions: for every byte string,
   every rune / byte argument, every cut-over function and both values of
   NativeIndex. ---- *)
From Strcase Require Import Impl Impl4 Impl5 Utf8Enc Instances Refine_Last.

(* indexRuneCase: the first code point equal to r (any r: ASCII, U+FFFD, invalid, multi-byte) *)
Theorem C10_indexRuneCase : forall native cutover s r, wf s ->
  indexRuneCase native cutover s r = Ok (rune_index s r).
Proof. exact indexRuneCase121. Qed.
Print Assumptions C10_indexRuneCase.

Theorem C10_indexrune_refines : forall native cutover s r, wf s ->
  Impl5.IndexRune native cutover fold_map121 upper_lower121 s r = Ok (index_rune fold121 s r).
Proof. exact indexrune_refines121. Qed.
Print Assumptions C10_indexrune_refines.

Theorem C10_containsrune_refines : forall native cutover s r, wf s ->
  Impl5.ContainsRune native cutover fold_map121 upper_lower121 s r = Ok (contains_rune fold121 s r).
Proof. exact containsrune_refines121. Qed.

Theorem C10_indexbyte_refines : forall native cutover s c, wf s -> 0 <= c < 256 ->
  Impl5.IndexByte native cutover s c = Ok (index_byte s c).
Proof. exact indexbyte_refines121. Qed.
Print Assumptions C10_indexbyte_refines.

(* LastIndexByte: the last raw offset at which c (or, for a letter, either case, or for K k S s
   the encoding of U+212A / U+017F) starts — and the model of the code computes it *)
Theorem C10_last_index_byte_spec : forall s c,
  (last_index_byte s c = -1 /\ forall p, (p < length s)%nat -> pat_at (byte_pats c) s p = false) \/
  (exists p, (p < length s)%nat /\ last_index_byte s c = Z.of_nat p /\ pat_at (byte_pats c) s p = true /\
             forall q, (p < q)%nat -> (q < length s)%nat -> pat_at (byte_pats c) s q = false).
Proof. exact Refine_Last.last_index_byte_spec. Qed.
Print Assumptions C10_last_index_byte_spec.

Theorem C10_lastindexbyte_refines : forall s c, wf s -> 0 <= c < 256 ->
  Impl5.LastIndexByte s c = Ok (last_index_byte s c).
Proof. exact Refine_Last.lastindexbyte_refines. Qed.
Print Assumptions C10_lastindexbyte_refines.

Theorem C10_indexbyteascii_refines : forall s c, Impl5.IndexByteASCII s c = Ok (index_byte_ascii s c).
Proof. reflexivity. Qed.

(* self-synchronisation: raw occurrences of an encoding are the segments decoding to it *)
Theorem C10_self_synchronising : forall s r, wf s -> valid_rune r = true -> 128 <= r -> r <> RuneError ->
  std_index s (encode r) = rune_index s r.
Proof. exact std_index_encode. Qed.
Print Assumptions C10_self_synchronising.
