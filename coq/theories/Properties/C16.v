(* C16 — results are invariant under changing the case of either argument.
   [recase s s']: s' has the same number of code points as s and each is
   fold-equal to (= in the simple-folding orbit of, C03) the corresponding
   one of s.  Booleans, the sign of Compare and Count are equal; every
   reported offset is [offz _ o] for the same code-point index o, so byte
   offsets change only by the widths of the preceding text. *)
From Strcase Require Import Base Utf8 Utf8Facts Spec SpecFacts SpecIndex SpecAffix SpecRel Fold FoldFacts FoldTables FoldFacts121.

Theorem C16_key : forall s s', recase fold121 s s' -> key fold121 s = key fold121 s'.
Proof. exact (key_recase fold121). Qed.

Section R.
Variables s s' t t' : bytes.
Hypothesis Hs : recase fold121 s s'.
Hypothesis Ht : recase fold121 t t'.

Theorem C16_compare : compare fold121 s t = compare fold121 s' t'.
Proof. exact (recase_compare fold121 s s' t t' Hs Ht). Qed.
Theorem C16_equal_fold : equal_fold fold121 s t = equal_fold fold121 s' t'.
Proof. exact (recase_equal_fold fold121 s s' t t' Hs Ht). Qed.
Theorem C16_contains : contains fold121 s t = contains fold121 s' t'.
Proof. exact (recase_contains fold121 s s' t t' Hs Ht). Qed.
Theorem C16_has_prefix : has_prefix fold121 s t = has_prefix fold121 s' t'.
Proof. exact (recase_has_prefix fold121 s s' t t' Hs Ht). Qed.
Theorem C16_has_suffix : has_suffix fold121 s t = has_suffix fold121 s' t'.
Proof. exact (recase_has_suffix fold121 s s' t t' Hs Ht). Qed.
Theorem C16_count : count fold121 s t = count fold121 s' t'.
Proof. exact (recase_count fold121 s s' t t' Hs Ht). Qed.
Theorem C16_contains_any : contains_any fold121 s t = contains_any fold121 s' t'.
Proof. exact (recase_contains_any fold121 s s' t t' Hs Ht). Qed.

Theorem C16_index : exists o, index fold121 s t = offz s o /\ index fold121 s' t' = offz s' o.
Proof. exact (recase_index fold121 s s' t t' Hs Ht). Qed.
Theorem C16_last_index : exists o, last_index fold121 s t = offz s o /\ last_index fold121 s' t' = offz s' o.
Proof. exact (recase_last_index fold121 s s' t t' Hs Ht). Qed.
Theorem C16_index_any : exists o, index_any fold121 s t = offz s o /\ index_any fold121 s' t' = offz s' o.
Proof. exact (recase_index_any fold121 s s' t t' Hs Ht). Qed.
Theorem C16_last_index_any : exists o, last_index_any fold121 s t = offz s o /\ last_index_any fold121 s' t' = offz s' o.
Proof. exact (recase_last_index_any fold121 s s' t t' Hs Ht). Qed.

Theorem C16_trim_prefix : exists k,
  trim_prefix fold121 s t = (Z.of_nat (off s k), len s) /\ trim_prefix fold121 s' t' = (Z.of_nat (off s' k), len s').
Proof. exact (recase_trim_prefix fold121 s s' t t' Hs Ht). Qed.
Theorem C16_trim_suffix : exists k,
  trim_suffix fold121 s t = (0, Z.of_nat (off s k)) /\ trim_suffix fold121 s' t' = (0, Z.of_nat (off s' k)).
Proof. exact (recase_trim_suffix fold121 s s' t t' Hs Ht). Qed.
Theorem C16_cut :
  (exists k j, cut fold121 s t = ((0, Z.of_nat (off s k)), (Z.of_nat (off s j), len s), true) /\
               cut fold121 s' t' = ((0, Z.of_nat (off s' k)), (Z.of_nat (off s' j), len s'), true)) \/
  (cut fold121 s t = ((0, len s), (0, 0), false) /\ cut fold121 s' t' = ((0, len s'), (0, 0), false)).
Proof. exact (recase_cut fold121 s s' t t' Hs Ht). Qed.
End R.
Print Assumptions C16_cut.

Theorem C16_index_rune : forall s s' r r',
  recase fold121 s s' -> fold121 r = fold121 r' -> valid_rune r = valid_rune r' ->
  exists o, index_rune fold121 s r = offz s o /\ index_rune fold121 s' r' = offz s' o.
Proof. exact (recase_index_rune fold121). Qed.

(* non-vacuity: "ßk" re-cased to U+1E9E U+212A (widths 2,1 -> 3,3) *)
Example C16_example :
  recase fold121 [195; 159; 107] [225; 186; 158; 226; 132; 170] /\
  index fold121 [120; 195; 159; 107] [107] = 3 /\
  index fold121 [120; 225; 186; 158; 226; 132; 170] [75] = 4.
Proof.
  split; [|vm_compute; auto]. unfold recase.
  assert (E1 : runes [195; 159; 107] = [223; 107]) by (vm_compute; reflexivity).
  assert (E2 : runes [225; 186; 158; 226; 132; 170] = [7838; 8490]) by (vm_compute; reflexivity).
  rewrite E1, E2. constructor; [vm_compute; reflexivity|]. constructor; [vm_compute; reflexivity|]. constructor.
Qed.
