(* C14 — results do not depend on the CPU features or backend the build
   selects.  The Go-level kernel variants a configuration can select are all
   equal to one scalar definition (hence to each other); the search
   functions above them are tied to one configuration-free Spec by the
   correspondence run, which is executed under every configuration
   (runtime AVX2, cpu.avx2=off, cpu.popcnt=off, GOAMD64=v3, GOARCH=386 =
   the portable file set) and compared case by case. *)
From Strcase Require Import Base Utf8 Spec Kernels.

Theorem C14_count_variants_equal : forall s c, wf s -> 0 <= c < 256 ->
  count_generic s c = count_simd s c.
Proof. intros s c Hs Hc. rewrite count_generic_eq, count_simd_eq by assumption. reflexivity. Qed.
Print Assumptions C14_count_variants_equal.

Theorem C14_index_byte_generic_is_scalar : forall s c, wf s -> 0 <= c < 256 ->
  index_byte_generic s c = k_index_byte s c.
Proof. exact index_byte_generic_eq. Qed.

Theorem C14_index_non_ascii_generic_is_scalar : forall s, wf s -> index_non_ascii_generic s = index_non_ascii s.
Proof. exact index_non_ascii_generic_eq. Qed.
