(* C14 — results do not depend on the CPU features or backend the build
   selects.  The Go-level kernel variants a configuration can select are all
   equal to one scalar definition (hence to each other); the search
   functions above them are tied to one configuration-free Spec by the
   correspondence run, which is executed under every configuration
   (runtime AVX2, cpu.avx2=off, cpu.popcnt=off, GOAMD64=v3, GOARCH=386 =
   the portable file set) and compared case by case.
   At the level of the kernels the statement is a theorem about the code
   each back end executes: the assembly with its AVX2 path, with its SSE
   path, the assembly as preprocessed for GOAMD64=v3, the no-POPCNT Go
   fallback and the portable Go bodies all return the same scalar
   definitions (C14_kernel_backends_agree below). *)
From Strcase Require Import Base Utf8 Spec Kernels Impl Impl5 Impl6 Impl7 Instances X86 X86NonASCII X86IndexByte X86Count X86Countv3.
From StrcaseGen Require Import AsmProg.
From StrcaseGen Require Consts Oracle.
From Strcase Require SrcConsts IntWidth.
From Strcase Require Import X86Isa X86IsaInst.

Theorem C14_count_variants_equal : forall s c, wf s -> 0 <= c < 256 ->
  count_generic s c = count_simd s c.
Proof. intros s c Hs Hc. rewrite count_generic_eq, count_simd_eq by assumption. reflexivity. Qed.
Print Assumptions C14_count_variants_equal.

Theorem C14_index_byte_generic_is_scalar : forall s c, wf s -> 0 <= c < 256 ->
  index_byte_generic s c = k_index_byte s c.
Proof. exact index_byte_generic_eq. Qed.

Theorem C14_index_non_ascii_generic_is_scalar : forall s, wf s -> index_non_ascii_generic s = index_non_ascii s.
Proof. exact index_non_ascii_generic_eq. Qed.

(* ---- every kernel back end computes the same function ----
   For each of the three kernels and each entry point: the run of the default assembly with AVX2, the run without
   AVX2 (SSE path), the run of what GOAMD64=v3 assembles (count_go122_amd64.s loses its CPU tests; the other two
   files do not include asm_amd64.h and are assembled unchanged, AsmProg.v says so), and the Go bodies used without POPCNT / without
   assembly, all yield one value — at any address, alignment and surrounding memory (the assembly runs may even
   be placed differently: A1/junk1, A2/junk2, A3/junk3). *)
Definition placed (A : Z) (s : bytes) : Prop := 4096 <= A /\ A + X86.len s < two63.

Theorem C14_kernel_backends_agree : forall s c A1 A2 A3 junk1 junk2 junk3 slot popcnt r1 r2 r3,
  wf s -> placed A1 s -> placed A2 s -> placed A3 s ->
  let c8 := c mod 256 in
  (* IndexNonASCII *)
  (exists f1 f2 f3 v,
     X86.run A1 s junk1 slot true popcnt c prog_index_non_ascii_go122_amd64 f1 entry_index_non_ascii_go122_amd64_IndexNonASCII (init r1) = Done (Some v) /\
     X86.run A2 s junk2 slot false popcnt c prog_index_non_ascii_go122_amd64 f2 entry_index_non_ascii_go122_amd64_IndexNonASCII (init r2) = Done (Some v) /\
     X86.run A3 s junk3 slot true popcnt c prog_index_non_ascii_go122_amd64_v3 f3 entry_index_non_ascii_go122_amd64_IndexNonASCII_v3 (init r3) = Done (Some v) /\
     index_non_ascii_generic s = v) /\
  (* IndexByteString *)
  (exists f1 f2 f3 v,
     X86.run A1 s junk1 slot true popcnt c prog_indexbyte_go122_amd64 f1 entry_indexbyte_go122_amd64_IndexByteString (init r1) = Done (Some v) /\
     X86.run A2 s junk2 slot false popcnt c prog_indexbyte_go122_amd64 f2 entry_indexbyte_go122_amd64_IndexByteString (init r2) = Done (Some v) /\
     X86.run A3 s junk3 slot true popcnt c prog_indexbyte_go122_amd64_v3 f3 entry_indexbyte_go122_amd64_IndexByteString_v3 (init r3) = Done (Some v) /\
     index_byte_generic s c8 = v) /\
  (* CountString *)
  (exists f1 f2 f3 v,
     X86.run A1 s junk1 slot true true c prog_count_go122_amd64 f1 entry_count_go122_amd64_CountString (init r1) = Done (Some v) /\
     X86.run A2 s junk2 slot false true c prog_count_go122_amd64 f2 entry_count_go122_amd64_CountString (init r2) = Done (Some v) /\
     X86.run A3 s junk3 slot true popcnt c prog_count_go122_amd64_v3 f3 entry_count_go122_amd64_CountString_v3 (init r3) = Done (Some v) /\
     count_generic s c8 = v /\ count_simd s c8 = v).
Proof.
  intros s c A1 A2 A3 junk1 junk2 junk3 slot popcnt r1 r2 r3 Hw [HA1 HL1] [HA2 HL2] [HA3 HL3] c8.
  assert (Hc8 : 0 <= c8 < 256) by (apply Z.mod_pos_bound; reflexivity).
  split; [|split].
  - destruct (index_non_ascii_str A1 s junk1 slot true popcnt c HA1 HL1 Hw r1) as [f1 H1].
    destruct (index_non_ascii_str A2 s junk2 slot false popcnt c HA2 HL2 Hw r2) as [f2 H2].
    destruct (index_non_ascii_str A3 s junk3 slot true popcnt c HA3 HL3 Hw r3) as [f3 H3].
    exists f1, f2, f3, (index_non_ascii s). repeat split; try assumption. apply index_non_ascii_generic_eq. exact Hw.
  - destruct (index_byte_asm_str A1 s junk1 slot true popcnt c HA1 HL1 Hw r1) as [f1 H1].
    destruct (index_byte_asm_str A2 s junk2 slot false popcnt c HA2 HL2 Hw r2) as [f2 H2].
    destruct (index_byte_asm_str A3 s junk3 slot true popcnt c HA3 HL3 Hw r3) as [f3 H3].
    exists f1, f2, f3, (k_index_byte s c8). repeat split; try assumption. apply index_byte_generic_eq; assumption.
  - destruct (count_asm_str A1 s junk1 slot true true c HA1 HL1 Hw r1 eq_refl) as [f1 H1].
    destruct (count_asm_str A2 s junk2 slot false true c HA2 HL2 Hw r2 eq_refl) as [f2 H2].
    destruct (count_asm_str_v3 A3 s junk3 slot true popcnt c HA3 HL3 Hw r3) as [f3 H3].
    exists f1, f2, f3, (k_count s c8). repeat split; try assumption; [apply count_generic_eq|apply count_simd_eq]; assumption.
Qed.
Print Assumptions C14_kernel_backends_agree.

(* ---- the functions above the kernels: the models of the searches that branch on the back end (NativeIndex, the
   cut-over heuristic of the byte scans, the brute-force / Rabin-Karp thresholds) return the same result under
   every setting of these parameters, because each setting refines the same Spec (Instances.v) ---- *)
Theorem C14_search_models_configuration_free :
  forall (p : Impl.pkg) (n1 n2 : bool) (cut1 cut2 : Z -> Z) (mb1 mb2 ml1 ml2 prime1 prime2 nm1 nm2 rt1 rt2 : Z) (s t : bytes) (r c : Z),
  nm1 <= rt1 -> nm2 <= rt2 ->
  wf s -> wf t -> 0 <= c < 256 ->
  Impl6.Index n1 cut1 FoldFacts121a.fold121 (FoldFacts121a.lower_pkg p) FoldFacts121.fold_map121 FoldFacts121.fold_map_excl121
              FoldFacts121.upper_lower121 mb1 ml1 prime1 nm1 rt1 p s t
  = Impl6.Index n2 cut2 FoldFacts121a.fold121 (FoldFacts121a.lower_pkg p) FoldFacts121.fold_map121 FoldFacts121.fold_map_excl121
              FoldFacts121.upper_lower121 mb2 ml2 prime2 nm2 rt2 p s t /\
  Impl5.IndexRune n1 cut1 FoldFacts121.fold_map121 FoldFacts121.upper_lower121 s r
  = Impl5.IndexRune n2 cut2 FoldFacts121.fold_map121 FoldFacts121.upper_lower121 s r /\
  Impl5.IndexByte n1 cut1 s c = Impl5.IndexByte n2 cut2 s c /\
  Impl7.IndexAny n1 cut1 FoldFacts121.fold_map121 FoldFacts121.upper_lower121 s t
  = Impl7.IndexAny n2 cut2 FoldFacts121.fold_map121 FoldFacts121.upper_lower121 s t /\
  Impl7.LastIndexAny n1 cut1 FoldFacts121.fold_map121 FoldFacts121.upper_lower121 s t
  = Impl7.LastIndexAny n2 cut2 FoldFacts121.fold_map121 FoldFacts121.upper_lower121 s t.
Proof.
  intros p n1 n2 cut1 cut2 mb1 mb2 ml1 ml2 prime1 prime2 nm1 nm2 rt1 rt2 s t r c H1 H2 Hs Ht Hc.
  rewrite !index_refines121, !indexrune_refines121, !indexbyte_refines121, !indexany_refines121, !lastindexany_refines121 by assumption.
  repeat split; reflexivity.
Qed.
Print Assumptions C14_search_models_configuration_free.

(* ---- the one call that leaves the library for code with a CPU-dependent contract: Index hands non-letter needles
   of at most nativeMax bytes to the runtime's internal/bytealg.Index, which "requires 2 <= len(b) <= MaxLen" and
   on amd64 without AVX2 (MaxLen = 31) executes AVX2 instructions for anything longer.  In the model a call outside
   the contract is a crash (Impl4.native_index), so the refinement above needs nativeMax <= MaxLen; here it is, at
   the bound the source has now (gen/Consts.v: read from strcase.go and bytcase/bytcase.go on every run) and the
   least value the toolchain ever gives MaxLen (gen/Oracle.v: read from $GOROOT/src/internal/bytealg) ---- *)
Theorem C14_native_needles_within_runtime_contract : forall p : Impl.pkg,
  SrcConsts.src_nativeMax p <= StrcaseGen.Oracle.rt_maxlen_min.
Proof. exact SrcConsts.native_contract_src. Qed.
Print Assumptions C14_native_needles_within_runtime_contract.

(* ... so Index with exactly the constants of the source, under any back end and cut-over, on any CPU the toolchain
   supports, is the configuration-free Spec (this is the instance coq/extract/Extract.v runs against the code) *)
Theorem C14_index_at_the_source_constants : forall (p : Impl.pkg) (native : bool) (cutover : Z -> Z) (rtMaxLen : Z) (s t : bytes),
  StrcaseGen.Oracle.rt_maxlen_min <= rtMaxLen -> wf s -> wf t ->
  Impl6.Index native cutover FoldFacts121a.fold121 (FoldFacts121a.lower_pkg p) FoldFacts121.fold_map121 FoldFacts121.fold_map_excl121
              FoldFacts121.upper_lower121 (SrcConsts.src_maxBruteForce p) (SrcConsts.src_maxLen p) (SrcConsts.src_primeRK p)
              (SrcConsts.src_nativeMax p) rtMaxLen p s t
  = Ok (index FoldFacts121a.fold121 s t).
Proof.
  intros p native cutover rtMaxLen s t Hrt Hs Ht. apply index_refines121; try assumption.
  apply SrcConsts.native_contract_src_le. exact Hrt.
Qed.
Print Assumptions C14_index_at_the_source_constants.

(* ---- a processor that lacks a feature: the kernels never execute an AVX2 (VEX-encoded, 256-bit) instruction while
   HasAVX2 is false, nor POPCNT while HasPOPCNT is false.  [run_strict] (X86Isa.v) is the machine on which those
   instructions fault when their flag is false; from every exported entry point of the three assembly files, for
   every argument, register file, surrounding memory, flag setting and number of steps, it does exactly what the
   permissive machine of the kernel theorems does (abstract interpretation of the translated instruction lists:
   which flags are known to come from the CMPB HasAVX2 / HasPOPCNT tests; closure sets checked by evaluation) ---- *)
Theorem C14_kernels_execute_no_instruction_of_an_absent_feature :
  no_unavailable_instruction prog_index_non_ascii_go122_amd64 entry_index_non_ascii_go122_amd64_IndexNonASCII /\
  no_unavailable_instruction prog_index_non_ascii_go122_amd64 entry_index_non_ascii_go122_amd64_IndexByteNonASCII /\
  no_unavailable_instruction prog_indexbyte_go122_amd64 entry_indexbyte_go122_amd64_IndexByteString /\
  no_unavailable_instruction prog_indexbyte_go122_amd64 entry_indexbyte_go122_amd64_IndexByte /\
  no_unavailable_instruction prog_count_go122_amd64 entry_count_go122_amd64_CountString /\
  no_unavailable_instruction prog_count_go122_amd64 entry_count_go122_amd64_Count /\
  no_unavailable_instruction prog_index_non_ascii_amd64 entry_index_non_ascii_amd64_IndexNonASCII /\
  no_unavailable_instruction prog_index_non_ascii_amd64 entry_index_non_ascii_amd64_IndexByteNonASCII /\
  no_unavailable_instruction prog_indexbyte_amd64 entry_indexbyte_amd64_IndexByteString /\
  no_unavailable_instruction prog_indexbyte_amd64 entry_indexbyte_amd64_IndexByte /\
  no_unavailable_instruction prog_count_amd64 entry_count_amd64_CountString /\
  no_unavailable_instruction prog_count_amd64 entry_count_amd64_Count.
Proof.
  repeat split;
    [exact isa_index_non_ascii_str|exact isa_index_non_ascii_byt|exact isa_index_byte_str|exact isa_index_byte_byt
    |exact isa_count_str|exact isa_count_byt|exact isa_index_non_ascii_str_pre122|exact isa_index_non_ascii_byt_pre122
    |exact isa_index_byte_str_pre122|exact isa_index_byte_byt_pre122|exact isa_count_str_pre122|exact isa_count_byt_pre122].
Qed.
Print Assumptions C14_kernels_execute_no_instruction_of_an_absent_feature.

(* ... hence the kernel theorems hold on the processor without AVX2: e.g. IndexByteString, SSE only *)
Theorem C14_index_byte_on_a_processor_without_avx2 : forall A s junk slot popcnt c r0,
  4096 <= A -> A + X86.len s < two63 -> wf s ->
  exists fuel, run_strict A s junk slot false popcnt c prog_indexbyte_go122_amd64 fuel
                 entry_indexbyte_go122_amd64_IndexByteString (init r0) = Done (Some (k_index_byte s (c mod 256))).
Proof.
  intros A s junk slot popcnt c r0 HA Hl Hw.
  destruct (index_byte_asm_str A s junk slot false popcnt c HA Hl Hw r0) as [fuel H].
  exists fuel. rewrite isa_index_byte_str. exact H.
Qed.
Print Assumptions C14_index_byte_on_a_processor_without_avx2.

Theorem C14_count_on_a_processor_without_avx2 : forall A s junk slot c r0,
  4096 <= A -> A + X86.len s < two63 -> wf s ->
  exists fuel, run_strict A s junk slot false true c prog_count_go122_amd64 fuel
                 entry_count_go122_amd64_CountString (init r0) = Done (Some (k_count s (c mod 256))).
Proof.
  intros A s junk slot c r0 HA Hl Hw.
  destruct (count_asm_str A s junk slot false true c HA Hl Hw r0 eq_refl) as [fuel H].
  exists fuel. rewrite isa_count_str. exact H.
Qed.
Print Assumptions C14_count_on_a_processor_without_avx2.

Theorem C14_index_non_ascii_on_a_processor_without_avx2 : forall A s junk slot popcnt c r0,
  4096 <= A -> A + X86.len s < two63 -> wf s ->
  exists fuel, run_strict A s junk slot false popcnt c prog_index_non_ascii_go122_amd64 fuel
                 entry_index_non_ascii_go122_amd64_IndexNonASCII (init r0) = Done (Some (index_non_ascii s)).
Proof.
  intros A s junk slot popcnt c r0 HA Hl Hw.
  destruct (index_non_ascii_str A s junk slot false popcnt c HA Hl Hw r0) as [fuel H].
  exists fuel. rewrite isa_index_non_ascii_str. exact H.
Qed.
Print Assumptions C14_index_non_ascii_on_a_processor_without_avx2.

(* ---- the width of int.  The models compute with unbounded integers.  The only products of lengths in the code are
   the len*2 / len*3 of the length-ratio shortcuts (10 per package; line numbers and operand types are read from the
   source on every run): each multiplies an int64, where the product of any 32-bit length is exact; in a 32-bit int
   it is not — the witness is D8's input (a 715 827 883-byte haystack and a 1-byte needle) ---- *)
Theorem C14_length_products_do_not_depend_on_the_width_of_int :
  (forallb snd (StrcaseGen.Consts.str_shortcut_products ++ StrcaseGen.Consts.byt_shortcut_products) = true /\
   (length StrcaseGen.Consts.str_shortcut_products = 10 /\ length StrcaseGen.Consts.byt_shortcut_products = 10)%nat) /\
  (forall n k, 0 <= n < 2 ^ 31 -> k = 2 \/ k = 3 -> IntWidth.wrap 64 (n * k) = n * k) /\
  (forall n k, 0 <= n < 2 ^ 61 -> k = 2 \/ k = 3 -> IntWidth.wrap 64 (n * k) = n * k) /\
  (exists n m, 0 <= n < 2 ^ 31 /\ 0 < m < 2 ^ 31 /\ (IntWidth.wrap 32 (n * 3) <? m) = true /\ (n * 3 <? m) = false).
Proof.
  split; [exact SrcConsts.shortcut_products_in_int64|].
  split; [exact IntWidth.product_in_int64_exact|].
  split; [exact IntWidth.product_in_int_exact_64|exact IntWidth.product_in_int32_refuted].
Qed.
Print Assumptions C14_length_products_do_not_depend_on_the_width_of_int.
