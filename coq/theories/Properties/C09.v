(* C09 — prefix / suffix tests and trims remove exactly the matched text, or
   nothing.  Sub-slices are (lo, hi) positions in s. *)
From Strcase Require Import Base Utf8 Utf8Facts Spec SpecFacts SpecIndex SpecAffix Fold FoldFacts FoldTables FoldFacts121.

Theorem C09_has_prefix_iff : forall s p,
  has_prefix fold121 s p = true <->
  exists j, (j <= rune_count s)%nat /\ equal_fold fold121 (firstn (off s j) s) p = true.
Proof. exact (has_prefix_iff fold121). Qed.
Print Assumptions C09_has_prefix_iff.

Theorem C09_trim_prefix_match : forall s p,
  has_prefix fold121 s p = true ->
  exists j, (j <= rune_count s)%nat /\ equal_fold fold121 (firstn (off s j) s) p = true /\
            trim_prefix fold121 s p = (Z.of_nat (off s j), len s).
Proof. exact (trim_prefix_match fold121). Qed.
Print Assumptions C09_trim_prefix_match.

Theorem C09_trim_prefix_nomatch : forall s p,
  has_prefix fold121 s p = false -> trim_prefix fold121 s p = (0, len s).
Proof. exact (trim_prefix_nomatch fold121). Qed.

Theorem C09_cut_prefix : forall s p,
  cut_prefix fold121 s p = (trim_prefix fold121 s p, has_prefix fold121 s p).
Proof. exact (cut_prefix_eq fold121). Qed.

Theorem C09_has_suffix_iff : forall s p,
  has_suffix fold121 s p = true <->
  exists k, (k <= rune_count s)%nat /\ equal_fold fold121 (skipn (off s k) s) p = true.
Proof. exact (has_suffix_iff fold121). Qed.
Print Assumptions C09_has_suffix_iff.

Theorem C09_trim_suffix_match : forall s p,
  has_suffix fold121 s p = true ->
  exists k, (k <= rune_count s)%nat /\ equal_fold fold121 (skipn (off s k) s) p = true /\
            trim_suffix fold121 s p = (0, Z.of_nat (off s k)).
Proof. exact (trim_suffix_match fold121). Qed.
Print Assumptions C09_trim_suffix_match.

Theorem C09_trim_suffix_nomatch : forall s p,
  has_suffix fold121 s p = false -> trim_suffix fold121 s p = (0, len s).
Proof. exact (trim_suffix_nomatch fold121). Qed.

(* an empty affix always matches and removes nothing *)
Theorem C09_empty_prefix : forall s, has_prefix fold121 s [] = true /\ trim_prefix fold121 s [] = (0, len s).
Proof. exact (has_prefix_empty fold121). Qed.
Theorem C09_empty_suffix : forall s, has_suffix fold121 s [] = true /\ trim_suffix fold121 s [] = (0, len s).
Proof. exact (has_suffix_empty fold121). Qed.

(* an affix with more code points than s never matches *)
Theorem C09_prefix_too_long : forall s p, (rune_count s < rune_count p)%nat -> has_prefix fold121 s p = false.
Proof. exact (has_prefix_too_long fold121). Qed.
Theorem C09_suffix_too_long : forall s p, (rune_count s < rune_count p)%nat -> has_suffix fold121 s p = false.
Proof. exact (has_suffix_too_long fold121). Qed.
Print Assumptions C09_suffix_too_long.

(* non-vacuity: the D2 witness and a width-changing partner *)
Example C09_example :
  trim_prefix fold121 [97; 98; 99] [97; 98; 99; 100] = (0, 3) /\
  trim_prefix fold121 [226; 132; 170; 120] [107] = (3, 4) /\
  trim_suffix fold121 [120; 197; 191] [83] = (0, 1).
Proof. vm_compute. auto. Qed.

(* ---- the code's algorithms (structure-faithful model Impl.v, both package
   shapes) compute exactly these Spec functions, on all byte strings ---- *)
From Strcase Require Import Impl Impl2 Instances.

Theorem C09_hasprefix_refines : forall p s t, wf s -> wf t ->
  HasPrefix fold121 (lower_pkg p) p s t = Ok (has_prefix fold121 s t).
Proof. exact hasprefix_refines121. Qed.
Print Assumptions C09_hasprefix_refines.

Theorem C09_trimprefix_refines : forall p s t, wf s -> wf t ->
  TrimPrefix fold121 (lower_pkg p) p s t = Ok (trim_prefix fold121 s t).
Proof. exact trimprefix_refines121. Qed.
Print Assumptions C09_trimprefix_refines.

Theorem C09_cutprefix_refines : forall p s t, wf s -> wf t ->
  CutPrefix fold121 (lower_pkg p) p s t = Ok (cut_prefix fold121 s t).
Proof. exact cutprefix_refines121. Qed.
Print Assumptions C09_cutprefix_refines.

Theorem C09_hassuffix_refines : forall p s t, wf s -> wf t ->
  HasSuffix fold121 (lower_pkg p) s t = Ok (has_suffix fold121 s t).
Proof. exact hassuffix_refines121. Qed.
Print Assumptions C09_hassuffix_refines.

Theorem C09_trimsuffix_refines : forall p s t, wf s -> wf t ->
  TrimSuffix fold121 (lower_pkg p) s t = Ok (trim_suffix fold121 s t).
Proof. exact trimsuffix_refines121. Qed.
Print Assumptions C09_trimsuffix_refines.

Theorem C09_cutsuffix_refines : forall p s t, wf s -> wf t ->
  CutSuffix fold121 (lower_pkg p) s t = Ok (cut_suffix fold121 s t).
Proof. exact cutsuffix_refines121. Qed.
Print Assumptions C09_cutsuffix_refines.
