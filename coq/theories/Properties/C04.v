(* C04 — Compare is a total preorder consistent with EqualFold.
   Statements only; proofs are in Refine_Compare.v / SpecFacts.v.
   fold121 = the CaseFold lookup over the tables regenerated from /repo. *)
From Strcase Require Import Base Utf8 Spec SpecFacts Impl Refine_Compare Fold FoldFacts FoldTables FoldFacts121a.

(* the model of the code (both packages) computes the lexicographic order of
   the folded code-point sequences, on all byte strings *)
Theorem C04_compare_refines : forall p s t, wf s -> wf t ->
  Compare fold121 (lower_pkg p) p s t = Ok (compare fold121 s t).
Proof. intros p s t. exact (compare_refines fold121 (lower_pkg p) (fold_facts_pkg p) p s t). Qed.
Print Assumptions C04_compare_refines.

Theorem C04_zero_iff_equal_fold : forall s t, compare fold121 s t = 0 <-> equal_fold fold121 s t = true.
Proof. exact (compare_zero_iff_equal_fold fold121). Qed.
Print Assumptions C04_zero_iff_equal_fold.

Theorem C04_antisymmetric : forall s t, compare fold121 s t = - compare fold121 t s.
Proof. exact (compare_antisym fold121). Qed.
Print Assumptions C04_antisymmetric.

Theorem C04_transitive : forall s t u,
  compare fold121 s t <= 0 -> compare fold121 t u <= 0 -> compare fold121 s u <= 0.
Proof. exact (compare_trans fold121). Qed.
Print Assumptions C04_transitive.

Theorem C04_transitive_strict : forall s t u,
  compare fold121 s t < 0 -> compare fold121 t u <= 0 -> compare fold121 s u < 0.
Proof. exact (compare_trans_lt fold121). Qed.
Print Assumptions C04_transitive_strict.

Theorem C04_sign_values : forall s t,
  compare fold121 s t = -1 \/ compare fold121 s t = 0 \/ compare fold121 s t = 1.
Proof. exact (compare_range fold121). Qed.

(* the sign is decided by the first position at which the code points are
   not fold-equal (one fixed order between orbits: the order of their
   CaseFold representatives); a proper fold-prefix orders first *)
Theorem C04_first_difference : forall s t p x a y b,
  key fold121 s = p ++ x :: a -> key fold121 t = p ++ y :: b -> x <> y ->
  compare fold121 s t = clamp (x - y).
Proof. exact (compare_first_diff fold121). Qed.
Print Assumptions C04_first_difference.

Theorem C04_proper_prefix_first : forall s t y b,
  key fold121 t = key fold121 s ++ y :: b -> compare fold121 s t = -1.
Proof. exact (compare_proper_prefix fold121). Qed.

(* unchanged when either argument is replaced by a fold-equal string *)
Theorem C04_respects_fold : forall s s' t t',
  equal_fold fold121 s s' = true -> equal_fold fold121 t t' = true ->
  compare fold121 s t = compare fold121 s' t'.
Proof. exact (compare_respects_fold fold121). Qed.
Print Assumptions C04_respects_fold.

(* ASCII: byte order of the lower-cased text *)
Theorem C04_ascii_order : forall s t,
  Forall (fun b => 0 <= b < 128) s -> Forall (fun b => 0 <= b < 128) t ->
  compare fold121 s t = bytes_compare (map lower_ascii s) (map lower_ascii t).
Proof.
  intros s t Hs Ht. unfold compare.
  rewrite !key_all_ascii by (eapply Forall_impl; [|eassumption]; cbv beta; intros; lia).
  rewrite lex_bytes_compare. f_equal; apply map_ext_in; intros b Hb;
    apply fold_ascii; (eapply Forall_forall in Hb; [|eassumption]); exact Hb.
Qed.
Print Assumptions C04_ascii_order.

(* non-vacuity: "Kelvin" vs "kelvin", U+212A vs k *)
Example C04_example :
  Compare fold121 lower_str Str [226; 132; 170; 101] [107; 69] = Ok 0 /\
  compare fold121 [97] [66] = -1 /\ compare fold121 [255] [239; 191; 189] = 0.
Proof. vm_compute. auto. Qed.
