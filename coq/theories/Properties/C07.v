(* C07 — strcase and bytcase are the same function on the same bytes.
   Both packages are tied to the same Spec by correspondence (and compared
   with each other directly on every generated case).  For the functions
   with a structure-faithful model of both package shapes the two models
   are proved equal; the two packages export the same set of functions
   (regenerated list, coq/gen/Exports.v). *)
From Strcase Require Import Base Utf8 Spec Impl Refine_Compare Fold FoldFacts FoldTables FoldFacts121a Safety.
From StrcaseGen Require Exports.

Theorem C07_compare_parity : forall s t, wf s -> wf t ->
  Compare fold121 lower_str Str s t = Compare fold121 lower_byt Byt s t.
Proof. exact compare_parity. Qed.
Print Assumptions C07_compare_parity.

Theorem C07_equalfold_parity : forall s t, wf s -> wf t ->
  EqualFold fold121 lower_str Str s t = EqualFold fold121 lower_byt Byt s t.
Proof. exact equalfold_parity. Qed.

Theorem C07_lower_tables_equal : forall b, 0 <= b < 256 -> lower_str b = lower_byt b.
Proof. exact lower_tables_equal. Qed.

Theorem C07_exports_equal : Exports.strcase_funcs = Exports.bytcase_funcs.
Proof. exact exports_equal. Qed.

Theorem C07_exports_count : length Exports.strcase_funcs = 23%nat.
Proof. exact exports_count. Qed.
