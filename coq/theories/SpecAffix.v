(* SpecAffix.v — prefix / suffix tests and trims (C09), Count and Cut (C12),
   and the self-consistency relations of the API (C17), at Spec level: for
   every fold function and all byte strings. *)
From Strcase Require Import Base Utf8 Utf8Facts Spec SpecFacts SpecIndex.
From Coq Require Import ZifyBool ZifyNat.

(* ---------------- list level ---------------- *)

Lemma suffixb_skipn p l :
  suffixb p l = true <-> (length p <= length l)%nat /\ skipn (length l - length p) l = p.
Proof.
  unfold suffixb. rewrite andb_true_iff, list_eqb_eq, Nat.leb_le. reflexivity.
Qed.

Lemma suffixb_spec p l : suffixb p l = true <-> exists q, l = q ++ p.
Proof.
  rewrite suffixb_skipn. split.
  - intros [H E]. exists (firstn (length l - length p) l).
    rewrite <- (firstn_skipn (length l - length p) l) at 1. rewrite E. reflexivity.
  - intros [q ->]. rewrite app_length. split; [lia|].
    replace (length q + length p - length p)%nat with (length q) by lia.
    rewrite skipn_app, skipn_all, Nat.sub_diag. reflexivity.
Qed.

Lemma suffixb_nil l : suffixb [] l = true.
Proof. apply suffixb_spec. exists l. symmetry. apply app_nil_r. Qed.

Lemma count_aux_skip p l n : count_aux p l n = count_aux p (skipn n l) 0.
Proof.
  revert n. induction l as [|x l IH]; intros n.
  - rewrite skipn_nil. destruct n; reflexivity.
  - destruct n as [|n]; [reflexivity|]. cbn [count_aux skipn]. apply IH.
Qed.

(* Count: repeatedly take the leftmost match and resume right after it *)
Lemma count_aux_unfold p l :
  p <> [] ->
  count_aux p l 0 = match find_first p l 0 with
                    | None => 0%nat
                    | Some k => S (count_aux p (skipn (k + length p) l) 0)
                    end.
Proof.
  intros Hp. induction l as [|x l IH].
  - cbn. destruct p; [congruence|reflexivity].
  - cbn [count_aux find_first]. destruct (prefixb p (x :: l)) eqn:E.
    + rewrite count_aux_skip. f_equal. f_equal.
      destruct p as [|y p]; [congruence|]. cbn [length Nat.add skipn]. f_equal. lia.
    + rewrite IH, (find_first_shift p l 1). destruct (find_first p l 0); reflexivity.
Qed.

(* ---------------- string level ---------------- *)

Section S.
Variable fold : Z -> Z.
Notation key := (key fold).
Notation equal_fold := (equal_fold fold).

Lemma slice_0 s j : slice s 0 j = firstn j s.
Proof. unfold slice. rewrite Nat.sub_0_r. reflexivity. Qed.

Lemma slice_to_end s i : slice s i (length s) = skipn i s.
Proof. unfold slice. apply firstn_all2. rewrite skipn_length. lia. Qed.

(* ---- HasPrefix / TrimPrefix / CutPrefix ---- *)

Theorem has_prefix_iff s p :
  has_prefix fold s p = true <->
  exists j, (j <= rune_count s)%nat /\ equal_fold (firstn (off s j) s) p = true.
Proof.
  unfold has_prefix. change (prefixb (key p) (key s)) with (match_at fold s p 0).
  rewrite (match_at_exists_slice fold s p 0) by lia. rewrite off_0.
  split; intros (j & Hj & E); exists j; (split; [lia|]); rewrite slice_0 in *; exact E.
Qed.

Theorem trim_prefix_match s p :
  has_prefix fold s p = true ->
  exists j, (j <= rune_count s)%nat /\ equal_fold (firstn (off s j) s) p = true /\
            trim_prefix fold s p = (Z.of_nat (off s j), len s).
Proof.
  intros H. unfold trim_prefix. rewrite H. exists (length (key p)).
  unfold has_prefix in H. pose proof (prefixb_length _ _ H) as Hl. rewrite (key_length fold s) in Hl.
  split; [exact Hl|]. split; [|reflexivity].
  rewrite <- slice_0, <- (off_0 s). apply equal_fold_slice; [lia|lia|].
  split; [exact H|reflexivity].
Qed.

Theorem trim_prefix_nomatch s p :
  has_prefix fold s p = false -> trim_prefix fold s p = (0, len s).
Proof. intros H. unfold trim_prefix. rewrite H. reflexivity. Qed.

Theorem has_prefix_empty s : has_prefix fold s [] = true /\ trim_prefix fold s [] = (0, len s).
Proof. unfold trim_prefix, has_prefix. cbn. split; reflexivity. Qed.

Theorem has_prefix_too_long s p : (rune_count s < rune_count p)%nat -> has_prefix fold s p = false.
Proof.
  intros H. destruct (has_prefix fold s p) eqn:E; [|reflexivity].
  apply prefixb_length in E. rewrite !key_length in E. lia.
Qed.

Theorem cut_prefix_eq s p : cut_prefix fold s p = (trim_prefix fold s p, has_prefix fold s p).
Proof. reflexivity. Qed.

(* ---- HasSuffix / TrimSuffix / CutSuffix ---- *)

Lemma has_suffix_match_at s p :
  has_suffix fold s p = true <->
  (rune_count p <= rune_count s)%nat /\
  match_at fold s p (rune_count s - rune_count p) = true.
Proof.
  unfold has_suffix, match_at. rewrite suffixb_skipn. rewrite (key_length fold s), (key_length fold p). split.
  - intros [H E]. split; [exact H|]. rewrite E. apply prefixb_refl.
  - intros (H & M). split; [exact H|]. symmetry. apply prefixb_same_length; [exact M|].
    rewrite skipn_length, (key_length fold s), (key_length fold p). lia.
Qed.

Theorem has_suffix_iff s p :
  has_suffix fold s p = true <->
  exists k, (k <= rune_count s)%nat /\ equal_fold (skipn (off s k) s) p = true.
Proof.
  split.
  - intros H. apply has_suffix_match_at in H as (H1 & M).
    exists (rune_count s - rune_count p)%nat. split; [lia|].
    rewrite <- slice_to_end. rewrite <- (off_all s (rune_count s)) by lia.
    apply equal_fold_slice; [lia|lia|]. split; [exact M|rewrite (key_length fold p); lia].
  - intros (k & Hk & E). rewrite <- slice_to_end in E. rewrite <- (off_all s (rune_count s)) in E by lia.
    apply equal_fold_slice in E as [M Hj]; [|lia|lia].
    apply has_suffix_match_at. rewrite (key_length fold p) in Hj.
    replace (rune_count s - rune_count p)%nat with k by lia. split; [lia|exact M].
Qed.

Theorem trim_suffix_match s p :
  has_suffix fold s p = true ->
  exists k, (k <= rune_count s)%nat /\ equal_fold (skipn (off s k) s) p = true /\
            trim_suffix fold s p = (0, Z.of_nat (off s k)).
Proof.
  intros H. unfold trim_suffix, suffix_cut. rewrite H. rewrite (key_length fold s), (key_length fold p).
  apply has_suffix_match_at in H as (H1 & M).
  exists (rune_count s - rune_count p)%nat. split; [lia|]. split; [|reflexivity].
  rewrite <- slice_to_end. rewrite <- (off_all s (rune_count s)) by lia.
  apply equal_fold_slice; [lia|lia|]. split; [exact M|rewrite (key_length fold p); lia].
Qed.

Theorem trim_suffix_nomatch s p :
  has_suffix fold s p = false -> trim_suffix fold s p = (0, len s).
Proof. intros H. unfold trim_suffix. rewrite H. reflexivity. Qed.

Theorem has_suffix_empty s : has_suffix fold s [] = true /\ trim_suffix fold s [] = (0, len s).
Proof.
  unfold trim_suffix, has_suffix, suffix_cut. change (Spec.key fold []) with (@nil Z).
  rewrite suffixb_nil. split; [reflexivity|]. cbn [length]. rewrite Nat.sub_0_r, key_length.
  rewrite off_all by lia. reflexivity.
Qed.

Theorem has_suffix_too_long s p : (rune_count s < rune_count p)%nat -> has_suffix fold s p = false.
Proof.
  intros H. destruct (has_suffix fold s p) eqn:E; [|reflexivity].
  apply has_suffix_match_at in E. lia.
Qed.

(* ---- Cut ---- *)

Theorem cut_found s sep :
  0 <= index fold s sep ->
  exists k j, index fold s sep = Z.of_nat (off s k) /\ (k <= j <= rune_count s)%nat /\
    equal_fold (slice s (off s k) (off s j)) sep = true /\
    cut fold s sep = ((0, Z.of_nat (off s k)), (Z.of_nat (off s j), len s), true).
Proof.
  unfold index, cut. destruct (find_first (key sep) (key s) 0) as [k|] eqn:F; cbn [offz]; [|lia].
  intros _. apply find_first_some in F as (d & -> & Hd & Hm & _). cbn [Nat.add].
  rewrite key_length in Hd.
  assert (Hl : (length (key sep) <= rune_count s - d)%nat).
  { apply prefixb_length in Hm. rewrite skipn_length, (key_length fold s) in Hm. exact Hm. }
  exists d, (d + length (key sep))%nat. split; [reflexivity|]. split; [lia|]. split; [|reflexivity].
  apply equal_fold_slice; [lia|lia|]. split; [exact Hm|reflexivity].
Qed.

Theorem cut_not_found s sep :
  index fold s sep = -1 -> cut fold s sep = ((0, len s), (0, 0), false).
Proof.
  unfold index, cut. destruct (find_first (key sep) (key s) 0) as [k|]; cbn [offz]; [lia|reflexivity].
Qed.

(* ---- Count ---- *)

Theorem count_empty s : count fold s [] = Z.of_nat (rune_count s) + 1.
Proof. reflexivity. Qed.

(* the number of greedy leftmost non-overlapping matches: no match -> 0;
   leftmost match at code point k -> 1 + the count of what follows its last code point *)
Theorem count_greedy s sub :
  sub <> [] ->
  count fold s sub =
  match find_first (key sub) (key s) 0 with
  | None => 0
  | Some k => 1 + count fold (skipn (off s (k + length (key sub))) s) sub
  end.
Proof.
  intros Hne. unfold count. destruct sub as [|b sub]; [congruence|].
  assert (Hk : key (b :: sub) <> []) by (unfold Spec.key; rewrite segs_cons; discriminate).
  rewrite (count_aux_unfold _ _ Hk).
  destruct (find_first (key (b :: sub)) (key s) 0) as [k|]; [|reflexivity].
  assert (E : key (skipn (off s (k + length (key (b :: sub)))) s) = skipn (k + length (key (b :: sub))) (key s)).
  { unfold Spec.key. rewrite segs_skipn_off. symmetry. apply skipn_map. }
  rewrite E. lia.
Qed.

Theorem count_nonneg s sub : 0 <= count fold s sub.
Proof. unfold count. destruct sub; lia. Qed.

(* ---------------- C17: the API agrees with itself ---------------- *)

Theorem contains_iff_last_index s t : contains fold s t = (0 <=? last_index fold s t).
Proof.
  unfold contains. pose proof (index_iff_last_index fold s t).
  destruct (0 <=? index fold s t) eqn:E1; destruct (0 <=? last_index fold s t) eqn:E2; lia.
Qed.

Theorem contains_iff_count s t : contains fold s t = (0 <? count fold s t).
Proof.
  unfold contains, index, count. destruct t as [|b t].
  - change (Spec.key fold []) with (@nil Z). destruct (key s); cbn; lia.
  - assert (Hk : key (b :: t) <> []) by (unfold Spec.key; rewrite segs_cons; discriminate).
    rewrite (count_aux_unfold _ _ Hk).
    destruct (find_first (key (b :: t)) (key s) 0); cbn [offz]; lia.
Qed.

Theorem contains_iff_cut s t : contains fold s t = snd (cut fold s t).
Proof.
  unfold contains, index, cut. destruct (find_first (key t) (key s) 0); cbn [offz snd]; lia.
Qed.

Theorem has_prefix_iff_index0 s t : has_prefix fold s t = (index fold s t =? 0).
Proof.
  unfold has_prefix, index. destruct (find_first (key t) (key s) 0) as [k|] eqn:F; cbn [offz].
  - apply find_first_some in F as (d & -> & Hd & Hm & Hl). cbn [Nat.add]. rewrite key_length in Hd.
    destruct d as [|d].
    + rewrite skipn_O in Hm. rewrite Hm, off_0. reflexivity.
    + pose proof (Hl 0%nat ltac:(lia)) as H0. rewrite skipn_O in H0. rewrite H0. pose proof (off_lt s 0 (S d) ltac:(lia) Hd). rewrite off_0 in H. lia.
  - pose proof (find_first_none _ _ _ F 0%nat) as H0. rewrite skipn_O in H0. rewrite H0. reflexivity.
Qed.

Theorem has_prefix_iff_trim s t :
  has_prefix fold s t = negb (fst (trim_prefix fold s t) =? 0) || (len t =? 0).
Proof.
  unfold trim_prefix. destruct (has_prefix fold s t) eqn:H; cbn [fst].
  - destruct t as [|b t]; [reflexivity|].
    assert (Hk : (0 < length (key (b :: t)))%nat) by (unfold Spec.key; rewrite segs_cons; simpl; lia).
    unfold has_prefix in H. apply prefixb_length in H. rewrite (key_length fold s) in H.
    pose proof (off_lt s 0 (length (key (b :: t))) Hk H) as L. rewrite off_0 in L.
    destruct (Z.of_nat (off s (length (key (b :: t)))) =? 0) eqn:E; [lia|reflexivity].
  - destruct t as [|b t]; [cbn in H; discriminate|]. unfold len. simpl. reflexivity.
Qed.

Theorem has_suffix_iff_last_index s t :
  has_suffix fold s t = true <->
  exists i, last_index fold s t = Z.of_nat i /\ (i <= length s)%nat /\ equal_fold (skipn i s) t = true.
Proof.
  split.
  - intros H. apply has_suffix_match_at in H as (H1 & M).
    set (k := (rune_count s - rune_count t)%nat) in *.
    assert (E : equal_fold (skipn (off s k) s) t = true).
    { rewrite <- slice_to_end. rewrite <- (off_all s (rune_count s)) by lia.
      apply equal_fold_slice; [lia|lia|]. split; [exact M|rewrite (key_length fold t); lia]. }
    exists (off s k). split; [|split; [apply off_le|exact E]].
    unfold last_index. destruct (find_last (key t) (key s) 0) as [r|] eqn:F; cbn [offz].
    + apply find_last_some in F as (d & -> & Hd & Hm & Hl). cbn [Nat.add]. rewrite key_length in Hd, Hl.
      destruct (lt_eq_lt_dec d k) as [[L|L]|L]; [|subst; reflexivity|].
      * unfold match_at in M. rewrite (Hl k L) in M by lia. discriminate.
      * (* a match starting after k would need more code points than remain *)
        apply prefixb_length in Hm. rewrite skipn_length, !key_length in Hm. lia.
    + unfold match_at in M. rewrite (find_last_none _ _ _ F k) in M. discriminate.
  - intros (i & L & Hi & E). apply last_index_found in L as (k & j & Hk & Hj & _ & _); [|lia].
    apply Nat2Z.inj in Hk. subst i. apply has_suffix_iff. exists k. split; [lia|exact E].
Qed.

Theorem equal_fold_iff_prefix_suffix s t :
  equal_fold s t = true <->
  has_prefix fold s t = true /\ has_suffix fold s t = true /\ rune_count s = rune_count t.
Proof.
  rewrite equal_fold_key. unfold has_prefix, has_suffix. split.
  - intros E. rewrite E. split; [apply prefixb_refl|]. split.
    + apply suffixb_spec. exists []. reflexivity.
    + rewrite <- (key_length fold s), <- (key_length fold t), E. reflexivity.
  - intros (P & _ & C). symmetry. apply prefixb_same_length; [exact P|]. rewrite (key_length fold s), (key_length fold t). lia.
Qed.

End S.
