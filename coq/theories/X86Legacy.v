(* X86Legacy.v — the pre-go1.22 assembly files (count_amd64.s, indexbyte_amd64.s, index_non_ascii_amd64.s) are
   the go1.22 files without their PCALIGN lines: erasing the no-ops of the translated go1.22 programs (and
   renumbering the jump targets) yields exactly the translated pre-1.22 programs, entry points included — checked by
   computation on what tools/asm2prog.py produced from the current sources.  With X86Erase.erase_preserves_done the
   kernel theorems carry over. *)
From Coq Require Import List ZArith Lia Bool.
From Strcase Require Import Base Spec X86 X86Facts X86Erase X86NonASCII X86IndexByte X86Count X86Countv3.
From StrcaseGen Require Import AsmProg.
Import ListNotations.
Open Scope Z_scope.

Lemma erase_non_ascii : erase prog_index_non_ascii_go122_amd64 = prog_index_non_ascii_amd64 /\
  remap prog_index_non_ascii_go122_amd64 entry_index_non_ascii_go122_amd64_IndexNonASCII = entry_index_non_ascii_amd64_IndexNonASCII /\
  remap prog_index_non_ascii_go122_amd64 entry_index_non_ascii_go122_amd64_IndexByteNonASCII = entry_index_non_ascii_amd64_IndexByteNonASCII.
Proof. vm_compute. repeat split. Qed.

Lemma erase_indexbyte : erase prog_indexbyte_go122_amd64 = prog_indexbyte_amd64 /\
  remap prog_indexbyte_go122_amd64 entry_indexbyte_go122_amd64_IndexByte = entry_indexbyte_amd64_IndexByte /\
  remap prog_indexbyte_go122_amd64 entry_indexbyte_go122_amd64_IndexByteString = entry_indexbyte_amd64_IndexByteString.
Proof. vm_compute. repeat split. Qed.

Lemma erase_count : erase prog_count_go122_amd64 = prog_count_amd64 /\
  remap prog_count_go122_amd64 entry_count_go122_amd64_Count = entry_count_amd64_Count /\
  remap prog_count_go122_amd64 entry_count_go122_amd64_CountString = entry_count_amd64_CountString.
Proof. vm_compute. repeat split. Qed.

Lemma erase_count_v3 : erase prog_count_go122_amd64_v3 = prog_count_amd64_v3 /\
  remap prog_count_go122_amd64_v3 entry_count_go122_amd64_Count_v3 = entry_count_amd64_Count_v3 /\
  remap prog_count_go122_amd64_v3 entry_count_go122_amd64_CountString_v3 = entry_count_amd64_CountString_v3.
Proof. vm_compute. repeat split. Qed.

Section L.
Variables (A : Z) (s : list Z) (junk : Z -> Z) (slot : Z) (avx2 popcnt : bool) (c : Z) (r0 : reg -> Z).
Hypothesis HA : 4096 <= A.
Hypothesis Hlen : A + X86.len s < two63.
Hypothesis Hwf : Forall (fun b => 0 <= b < 256) s.

Theorem legacy_index_non_ascii_str : exists fuel,
  X86.run A s junk slot avx2 popcnt c prog_index_non_ascii_amd64 fuel entry_index_non_ascii_amd64_IndexNonASCII (init r0) = Done (Some (index_non_ascii s)).
Proof.
  destruct erase_non_ascii as (EP & E1 & E2). destruct (index_non_ascii_str A s junk slot avx2 popcnt c HA Hlen Hwf r0) as [fuel H].
  exists fuel. rewrite <- EP, <- E1. apply erase_preserves_done. exact H.
Qed.

Theorem legacy_index_non_ascii_byt : exists fuel,
  X86.run A s junk slot avx2 popcnt c prog_index_non_ascii_amd64 fuel entry_index_non_ascii_amd64_IndexByteNonASCII (init r0) = Done (Some (index_non_ascii s)).
Proof.
  destruct erase_non_ascii as (EP & E1 & E2). destruct (index_non_ascii_byt A s junk slot avx2 popcnt c HA Hlen Hwf r0) as [fuel H].
  exists fuel. rewrite <- EP, <- E2. apply erase_preserves_done. exact H.
Qed.

Theorem legacy_index_byte_byt : exists fuel,
  X86.run A s junk slot avx2 popcnt c prog_indexbyte_amd64 fuel entry_indexbyte_amd64_IndexByte (init r0) = Done (Some (k_index_byte s (c mod 256))).
Proof.
  destruct erase_indexbyte as (EP & E1 & E2). destruct (index_byte_asm_byt A s junk slot avx2 popcnt c HA Hlen Hwf r0) as [fuel H].
  exists fuel. rewrite <- EP, <- E1. apply erase_preserves_done. exact H.
Qed.

Theorem legacy_index_byte_str : exists fuel,
  X86.run A s junk slot avx2 popcnt c prog_indexbyte_amd64 fuel entry_indexbyte_amd64_IndexByteString (init r0) = Done (Some (k_index_byte s (c mod 256))).
Proof.
  destruct erase_indexbyte as (EP & E1 & E2). destruct (index_byte_asm_str A s junk slot avx2 popcnt c HA Hlen Hwf r0) as [fuel H].
  exists fuel. rewrite <- EP, <- E2. apply erase_preserves_done. exact H.
Qed.

Theorem legacy_count_byt : popcnt = true -> exists fuel,
  X86.run A s junk slot avx2 popcnt c prog_count_amd64 fuel entry_count_amd64_Count (init r0) = Done (Some (k_count s (c mod 256))).
Proof.
  intros Hp. destruct erase_count as (EP & E1 & E2). destruct (count_asm_byt A s junk slot avx2 popcnt c HA Hlen Hwf r0 Hp) as [fuel H].
  exists fuel. rewrite <- EP, <- E1. apply erase_preserves_done. exact H.
Qed.

Theorem legacy_count_str : popcnt = true -> exists fuel,
  X86.run A s junk slot avx2 popcnt c prog_count_amd64 fuel entry_count_amd64_CountString (init r0) = Done (Some (k_count s (c mod 256))).
Proof.
  intros Hp. destruct erase_count as (EP & E1 & E2). destruct (count_asm_str A s junk slot avx2 popcnt c HA Hlen Hwf r0 Hp) as [fuel H].
  exists fuel. rewrite <- EP, <- E2. apply erase_preserves_done. exact H.
Qed.

Theorem legacy_count_str_v3 : exists fuel,
  X86.run A s junk slot avx2 popcnt c prog_count_amd64_v3 fuel entry_count_amd64_CountString_v3 (init r0) = Done (Some (k_count s (c mod 256))).
Proof.
  destruct erase_count_v3 as (EP & E1 & E2). destruct (count_asm_str_v3 A s junk slot avx2 popcnt c HA Hlen Hwf r0) as [fuel H].
  exists fuel. rewrite <- EP, <- E2. apply erase_preserves_done. exact H.
Qed.

Theorem legacy_count_byt_v3 : exists fuel,
  X86.run A s junk slot avx2 popcnt c prog_count_amd64_v3 fuel entry_count_amd64_Count_v3 (init r0) = Done (Some (k_count s (c mod 256))).
Proof.
  destruct erase_count_v3 as (EP & E1 & E2). destruct (count_asm_byt_v3 A s junk slot avx2 popcnt c HA Hlen Hwf r0) as [fuel H].
  exists fuel. rewrite <- EP, <- E1. apply erase_preserves_done. exact H.
Qed.

End L.
