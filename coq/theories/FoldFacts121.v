(* FoldFacts121.v — the table facts for the table file the toolchain
   compiles (tables_go121.go, regenerated into coq/gen/Tables121.v on every
   run) against the toolchain oracle dumped on the same run (coq/gen/Oracle.v).
   Every [chk_*] is a complete enumeration of the stored entries / oracle
   members by vm_compute (bound: <= 8192 slots, <= 2.9k orbit members);
   the theorems quantify over all int32 runes. *)
From Strcase Require Import Base Utf8 Fold FoldFacts FoldFacts2 FoldTables Refine_Compare.
From StrcaseGen Require Tables121 Oracle Consts.
From Coq Require Import FMapPositive ZifyBool ZifyNat.

Definition R121 : rmap := build_rmap Oracle.orbits.
Definition fold121 : Z -> Z := case_fold T121.

Lemma range121 : chk_range T121 = true.
Proof. vm_compute. reflexivity. Qed.
Lemma slots121 : chk_slots T121 = true.
Proof. vm_compute. reflexivity. Qed.
Lemma idem121 : chk_idem T121 = true.
Proof. vm_compute. reflexivity. Qed.
Lemma pairs121 : chk_pairs_in_orbit T121 R121 = true.
Proof. vm_compute. reflexivity. Qed.
Lemma members121 : chk_members_fold T121 R121 = true.
Proof. vm_compute. reflexivity. Qed.

Theorem fold121_orbit_exact a b :
  int32 a -> int32 b -> (fold121 a = fold121 b <-> rep R121 a = rep R121 b).
Proof. apply (fold_orbit_exact T121 R121 range121 pairs121 members121). Qed.

Theorem fold121_idempotent r : int32 r -> fold121 (fold121 r) = fold121 r.
Proof. apply (fold_idempotent T121 range121 idem121). Qed.

Theorem fold121_outside r : int32 r -> (r < 0 \/ 1114111 < r) -> fold121 r = r.
Proof. apply (fold_outside_unicode T121 range121). Qed.

(* ---- the finite checks on the regenerated data (complete enumerations by vm_compute) ---- *)
Lemma singletons121 : holds (chk_singletons R121).
Proof. vm_compute. reflexivity. Qed.
Lemma width_ratio121 : holds (chk_width_ratio R121).
Proof. vm_compute. reflexivity. Qed.
Lemma fm_sound121 : holds (chk_fm_sound T121).
Proof. vm_compute. reflexivity. Qed.
Lemma ul_sound121 : holds (chk_ul_sound T121).
Proof. vm_compute. reflexivity. Qed.
Lemma special_sound121 : holds (chk_special_sound T121).
Proof. vm_compute. reflexivity. Qed.
Lemma cands_complete121 : holds (chk_cands_complete T121 R121).
Proof. vm_compute. reflexivity. Qed.
Lemma ascii_sound121 : holds (chk_ascii_sound T121).
Proof. vm_compute. reflexivity. Qed.
Lemma ascii_complete121 : holds (chk_ascii_complete R121).
Proof. vm_compute. reflexivity. Qed.
Lemma fx_sound121 : holds (chk_fx_sound T121).
Proof. vm_compute. reflexivity. Qed.
Lemma ul_sound2_121 : holds (chk_ul_sound2 T121).
Proof. vm_compute. reflexivity. Qed.
Lemma cand2_complete121 : holds (chk_cand2_complete T121 R121).
Proof. vm_compute. reflexivity. Qed.

(* ---- lifted to all runes by the generic lemmas of FoldFacts2.v ---- *)

(* a code point outside every listed orbit is equal only to itself *)
Theorem alone_in_orbit r x :
  int32 r -> int32 x -> is_member R121 r = false -> (fold121 x = fold121 r <-> x = r).
Proof. unfold fold121. exact (FoldFacts2.alone_in_orbit T121 R121 range121 pairs121 members121 singletons121 r x). Qed.

Lemma nonmember_outside r : (r < 0 \/ 1114111 < r \/ 55296 <= r <= 57343) -> is_member R121 r = false.
Proof. exact (FoldFacts2.nonmember_outside T121 R121 range121 pairs121 members121 singletons121 r). Qed.

Lemma nonmember_special : is_member R121 65533 = false /\ is_member R121 304 = false /\ is_member R121 305 = false.
Proof. exact (FoldFacts2.nonmember_special R121 singletons121). Qed.

(* _lower of both packages agrees with CaseFold on ASCII and is the identity above *)
Fixpoint zrange (n : nat) : list Z :=
  match n with O => [] | S k => zrange k ++ [Z.of_nat k] end.
Lemma zrange_in n b : 0 <= b < Z.of_nat n -> In b (zrange n).
Proof.
  induction n as [|n IH]; intros H; [lia|]. cbn [zrange]. apply in_or_app.
  destruct (Z.eq_dec b (Z.of_nat n)) as [->|E]; [right; left; reflexivity|left; apply IH; lia].
Qed.

Definition chk_lower (lower : Z -> Z) : bool :=
  forallb (fun b => if b <? 128 then (lower b =? fold121 b) && (lower b <? 128) else lower b =? b) (zrange 256).
Lemma lower_str_ok : chk_lower lower_str = true.
Proof. vm_compute. reflexivity. Qed.
Lemma lower_byt_ok : chk_lower lower_byt = true.
Proof. vm_compute. reflexivity. Qed.

Lemma lower_spec lower b :
  chk_lower lower = true -> 0 <= b < 256 ->
  (b < 128 -> lower b = fold121 b /\ lower b < 128) /\ (128 <= b -> lower b = b).
Proof.
  intros H Hb. unfold chk_lower in H. rewrite forallb_forall in H.
  specialize (H b (zrange_in 256 b ltac:(lia))). destruct (b <? 128) eqn:E; lia.
Qed.

Lemma int32_of_rune r : 0 <= r <= MaxRune -> int32 r.
Proof. exact (FoldFacts2.int32_of_rune r). Qed.

Theorem fold_facts_str : fold_facts fold121 lower_str.
Proof.
  split.
  - intros r Hr. apply fold121_idempotent. apply int32_of_rune. exact Hr.
  - intros b Hb. apply (lower_spec lower_str b lower_str_ok); lia.
Qed.

Theorem fold_facts_byt : fold_facts fold121 lower_byt.
Proof.
  split.
  - intros r Hr. apply fold121_idempotent. apply int32_of_rune. exact Hr.
  - intros b Hb. apply (lower_spec lower_byt b lower_byt_ok); lia.
Qed.

(* UnicodeVersion == unicode.Version *)
Theorem version_matches : Tables121.unicode_version = Oracle.toolchain_version.
Proof. vm_compute. reflexivity. Qed.
Theorem version_recorded : Tables121.unicode_version = Tables121.recorded_unicode_version.
Proof. vm_compute. reflexivity. Qed.

(* the stored pairs are exactly the recorded UCD C+S set (by its SHA-256) *)
Theorem ucd_hash_matches : case_fold_hash T121 = Tables121.recorded_case_fold_hash.
Proof. vm_compute. reflexivity. Qed.

(* on ASCII, CaseFold is ASCII lower-casing *)
Lemma fold_ascii_chk : forallb (fun b => fold121 b =? Spec.lower_ascii b) (zrange 128) = true.
Proof. vm_compute. reflexivity. Qed.
Lemma fold_ascii b : 0 <= b < 128 -> fold121 b = Spec.lower_ascii b.
Proof.
  intros H. pose proof fold_ascii_chk as C. rewrite forallb_forall in C.
  specialize (C b (zrange_in 128 b ltac:(lia))). lia.
Qed.

Definition lower_pkg (p : Impl.pkg) : Z -> Z :=
  match p with Impl.Str => lower_str | Impl.Byt => lower_byt end.
Lemma fold_facts_pkg p : fold_facts fold121 (lower_pkg p).
Proof. destruct p; [apply fold_facts_str|apply fold_facts_byt]. Qed.

Theorem rune_error_alone x : int32 x -> (fold121 x = fold121 RuneError <-> x = RuneError).
Proof. unfold fold121. exact (FoldFacts2.rune_error_alone T121 R121 range121 pairs121 members121 singletons121 x). Qed.

(* F9: fold-equal code points differ in encoded width by at most a factor 3,
   and by more than a factor 2 only for U+212A (vs k/K) *)
Theorem width_ratio a b :
  0 <= a <= MaxRune -> 0 <= b <= MaxRune -> 1 <= rune_len a -> 1 <= rune_len b ->
  fold121 a = fold121 b ->
  rune_len a <= 3 * rune_len b /\ (2 * rune_len b < rune_len a -> a = 8490).
Proof. unfold fold121. exact (FoldFacts2.width_ratio T121 R121 range121 pairs121 members121 singletons121 width_ratio121 a b). Qed.

(* F7: the candidate set the single-rune searches build from FoldMap /
   ToUpperLower is exactly the simple-folding orbit *)
Definition fold_map121 := fold_map T121.
Definition upper_lower121 := to_upper_lower T121.
Definition cands121 := cands T121.

Theorem cands_exact r x :
  128 <= r <= MaxRune -> int32 x -> (fold121 x = fold121 r <-> In x (cands121 r)).
Proof.
  unfold fold121, cands121.
  exact (FoldFacts2.cands_exact T121 R121 range121 pairs121 members121 singletons121
           fm_sound121 ul_sound121 special_sound121 cands_complete121 r x).
Qed.

Theorem cands_range r x : 128 <= r <= MaxRune -> In x (cands121 r) -> 0 <= x <= MaxRune.
Proof.
  unfold cands121.
  exact (FoldFacts2.cands_range T121 R121 range121 pairs121 members121 fm_sound121 ul_sound121 special_sound121 r x).
Qed.

(* F10: orbits of ASCII code points *)
Theorem ascii_cands_exact r x :
  0 <= r < 128 -> int32 x -> (fold121 x = fold121 r <-> In x (ascii_cands r)).
Proof.
  unfold fold121.
  exact (FoldFacts2.ascii_cands_exact T121 R121 range121 pairs121 members121 singletons121
           ascii_sound121 ascii_complete121 r x).
Qed.

(* F8: the candidate test of Index / bruteForceIndexUnicode for a first or second code point u *)
Definition fold_map_excl121 := fold_map_excl T121.
Theorem cand2_exact u r :
  0 <= u <= MaxRune -> int32 r -> (cand2 T121 u r = true <-> fold121 r = fold121 u).
Proof.
  unfold fold121.
  exact (FoldFacts2.cand2_exact T121 R121 range121 pairs121 members121 singletons121
           fx_sound121 ul_sound2_121 cand2_complete121 u r).
Qed.
