(* FoldFacts121.v — the table facts for the table file the toolchain
   compiles (tables_go121.go, regenerated into coq/gen/Tables121.v on every
   run) against the toolchain oracle dumped on the same run (coq/gen/Oracle.v).
   Every [chk_*] is a complete enumeration of the stored entries / oracle
   members by vm_compute (bound: <= 8192 slots, <= 2.9k orbit members);
   the theorems quantify over all int32 runes. *)
From Strcase Require Import Base Utf8 Fold FoldFacts FoldTables Refine_Compare.
From StrcaseGen Require Tables121 Oracle Consts.
From Coq Require Import FMapPositive ZifyBool ZifyNat.

Definition R121 : rmap := build_rmap Oracle.orbits.
Definition fold121 : Z -> Z := case_fold T121.

Lemma range121 : chk_range T121 = true.
Proof. vm_compute. reflexivity. Qed.
Lemma slots121 : chk_slots T121 = true.
Proof. vm_compute. reflexivity. Qed.
Lemma idem121 : chk_idem T121 = true.
Proof. vm_compute. reflexivity. Qed.
Lemma pairs121 : chk_pairs_in_orbit T121 R121 = true.
Proof. vm_compute. reflexivity. Qed.
Lemma members121 : chk_members_fold T121 R121 = true.
Proof. vm_compute. reflexivity. Qed.

Theorem fold121_orbit_exact a b :
  int32 a -> int32 b -> (fold121 a = fold121 b <-> rep R121 a = rep R121 b).
Proof. apply (fold_orbit_exact T121 R121 range121 pairs121 members121). Qed.

Theorem fold121_idempotent r : int32 r -> fold121 (fold121 r) = fold121 r.
Proof. apply (fold_idempotent T121 range121 idem121). Qed.

Theorem fold121_outside r : int32 r -> (r < 0 \/ 1114111 < r) -> fold121 r = r.
Proof. apply (fold_outside_unicode T121 range121). Qed.

(* code points that must be alone in their orbit: U+FFFD, U+0130, U+0131,
   and no orbit member is a surrogate *)
Definition chk_singletons : bool :=
  negb (is_member R121 65533) && negb (is_member R121 304) && negb (is_member R121 305) &&
  forallb (fun px => let m := Zpos (fst px) - 1 in
                     (0 <=? m) && (m <=? 1114111) && negb ((55296 <=? m) && (m <=? 57343))
                     && is_member R121 (snd px))
          (PositiveMap.elements R121).
Lemma singletons121 : chk_singletons = true.
Proof. vm_compute. reflexivity. Qed.

Lemma rep_nonmember r : is_member R121 r = false -> rep R121 r = r.
Proof.
  unfold is_member, rep. destruct (r <? 0); [reflexivity|].
  destruct (PositiveMap.find _ R121); [discriminate|reflexivity].
Qed.

Lemma member_props r :
  is_member R121 r = true ->
  0 <= r <= 1114111 /\ ~ (55296 <= r <= 57343) /\ is_member R121 (rep R121 r) = true.
Proof.
  intros H. pose proof singletons121 as S. unfold chk_singletons in S.
  apply andb_true_iff in S as [_ S]. rewrite forallb_forall in S.
  unfold is_member in H. unfold rep. destruct (r <? 0) eqn:E; [discriminate|].
  destruct (PositiveMap.find (Z.to_pos (r + 1)) R121) as [x|] eqn:F; [|discriminate].
  apply PositiveMap.elements_correct in F. specialize (S _ F). cbn [fst snd] in S.
  replace (Z.pos (Z.to_pos (r + 1)) - 1) with r in S by lia. lia.
Qed.

(* a code point outside every listed orbit is equal only to itself *)
Theorem alone_in_orbit r x :
  int32 r -> int32 x -> is_member R121 r = false -> (fold121 x = fold121 r <-> x = r).
Proof.
  intros Hr Hx Hm. rewrite fold121_orbit_exact by assumption. rewrite (rep_nonmember r Hm).
  split; [|intros ->; apply rep_nonmember; exact Hm].
  intros H. destruct (is_member R121 x) eqn:Mx.
  - apply member_props in Mx as (_ & _ & Mx). rewrite H in Mx. congruence.
  - rewrite rep_nonmember in H by assumption. exact H.
Qed.

Lemma nonmember_outside r : (r < 0 \/ 1114111 < r \/ 55296 <= r <= 57343) -> is_member R121 r = false.
Proof.
  intros H. destruct (is_member R121 r) eqn:M; [|reflexivity]. apply member_props in M. lia.
Qed.

Lemma nonmember_special : is_member R121 65533 = false /\ is_member R121 304 = false /\ is_member R121 305 = false.
Proof. vm_compute. auto. Qed.

(* _lower of both packages agrees with CaseFold on ASCII and is the identity above *)
Fixpoint zrange (n : nat) : list Z :=
  match n with O => [] | S k => zrange k ++ [Z.of_nat k] end.
Lemma zrange_in n b : 0 <= b < Z.of_nat n -> In b (zrange n).
Proof.
  induction n as [|n IH]; intros H; [lia|]. cbn [zrange]. apply in_or_app.
  destruct (Z.eq_dec b (Z.of_nat n)) as [->|E]; [right; left; reflexivity|left; apply IH; lia].
Qed.

Definition chk_lower (lower : Z -> Z) : bool :=
  forallb (fun b => if b <? 128 then (lower b =? fold121 b) && (lower b <? 128) else lower b =? b) (zrange 256).
Lemma lower_str_ok : chk_lower lower_str = true.
Proof. vm_compute. reflexivity. Qed.
Lemma lower_byt_ok : chk_lower lower_byt = true.
Proof. vm_compute. reflexivity. Qed.

Lemma lower_spec lower b :
  chk_lower lower = true -> 0 <= b < 256 ->
  (b < 128 -> lower b = fold121 b /\ lower b < 128) /\ (128 <= b -> lower b = b).
Proof.
  intros H Hb. unfold chk_lower in H. rewrite forallb_forall in H.
  specialize (H b (zrange_in 256 b ltac:(lia))). destruct (b <? 128) eqn:E; lia.
Qed.

Lemma int32_of_rune r : 0 <= r <= MaxRune -> int32 r.
Proof. unfold MaxRune, int32. lia. Qed.

Theorem fold_facts_str : fold_facts fold121 lower_str.
Proof.
  split.
  - intros r Hr. apply fold121_idempotent. apply int32_of_rune. exact Hr.
  - intros b Hb. apply (lower_spec lower_str b lower_str_ok); lia.
Qed.

Theorem fold_facts_byt : fold_facts fold121 lower_byt.
Proof.
  split.
  - intros r Hr. apply fold121_idempotent. apply int32_of_rune. exact Hr.
  - intros b Hb. apply (lower_spec lower_byt b lower_byt_ok); lia.
Qed.

(* UnicodeVersion == unicode.Version *)
Theorem version_matches : Tables121.unicode_version = Oracle.toolchain_version.
Proof. vm_compute. reflexivity. Qed.
Theorem version_recorded : Tables121.unicode_version = Tables121.recorded_unicode_version.
Proof. vm_compute. reflexivity. Qed.

(* the stored pairs are exactly the recorded UCD C+S set (by its SHA-256) *)
Theorem ucd_hash_matches : case_fold_hash T121 = Tables121.recorded_case_fold_hash.
Proof. vm_compute. reflexivity. Qed.

(* on ASCII, CaseFold is ASCII lower-casing *)
Lemma fold_ascii_chk : forallb (fun b => fold121 b =? Spec.lower_ascii b) (zrange 128) = true.
Proof. vm_compute. reflexivity. Qed.
Lemma fold_ascii b : 0 <= b < 128 -> fold121 b = Spec.lower_ascii b.
Proof.
  intros H. pose proof fold_ascii_chk as C. rewrite forallb_forall in C.
  specialize (C b (zrange_in 128 b ltac:(lia))). lia.
Qed.

Definition lower_pkg (p : Impl.pkg) : Z -> Z :=
  match p with Impl.Str => lower_str | Impl.Byt => lower_byt end.
Lemma fold_facts_pkg p : fold_facts fold121 (lower_pkg p).
Proof. destruct p; [apply fold_facts_str|apply fold_facts_byt]. Qed.

Theorem rune_error_alone x : int32 x -> (fold121 x = fold121 RuneError <-> x = RuneError).
Proof.
  intros Hx. apply alone_in_orbit; [unfold int32, RuneError; lia|exact Hx|apply nonmember_special].
Qed.

(* F9: fold-equal code points differ in encoded width by at most a factor 3,
   and by more than a factor 2 only for U+212A (vs k/K) *)
Definition chk_width_ratio : bool :=
  let els := map (fun px => (Zpos (fst px) - 1, snd px)) (PositiveMap.elements R121) in
  forallb (fun a => forallb (fun b =>
      if snd a =? snd b then
        (rune_len (fst a) <=? 3 * rune_len (fst b)) &&
        ((rune_len (fst a) <=? 2 * rune_len (fst b)) || (fst a =? 8490))
      else true) els) els.
Lemma width_ratio121 : chk_width_ratio = true.
Proof. vm_compute. reflexivity. Qed.

Lemma member_in_elements r :
  is_member R121 r = true -> In (r, rep R121 r) (map (fun px => (Zpos (fst px) - 1, snd px)) (PositiveMap.elements R121)).
Proof.
  unfold is_member, rep. destruct (r <? 0) eqn:E; [discriminate|].
  destruct (PositiveMap.find (Z.to_pos (r + 1)) R121) as [x|] eqn:F; [|discriminate]. intros _.
  apply PositiveMap.elements_correct in F. apply in_map_iff. exists (Z.to_pos (r + 1), x).
  cbn [fst snd]. split; [f_equal; lia|exact F].
Qed.

Theorem width_ratio a b :
  0 <= a <= MaxRune -> 0 <= b <= MaxRune -> 1 <= rune_len a -> 1 <= rune_len b ->
  fold121 a = fold121 b ->
  rune_len a <= 3 * rune_len b /\ (2 * rune_len b < rune_len a -> a = 8490).
Proof.
  intros Ha Hb La Lb E. apply fold121_orbit_exact in E; [|apply int32_of_rune; assumption|apply int32_of_rune; assumption].
  destruct (is_member R121 a) eqn:Ma; destruct (is_member R121 b) eqn:Mb.
  - pose proof width_ratio121 as C. unfold chk_width_ratio in C. rewrite forallb_forall in C.
    specialize (C _ (member_in_elements a Ma)). rewrite forallb_forall in C.
    specialize (C _ (member_in_elements b Mb)). cbn [fst snd] in C. rewrite E, Z.eqb_refl in C. lia.
  - rewrite (rep_nonmember b Mb) in E. apply member_props in Ma as (_ & _ & Ma). rewrite E in Ma. congruence.
  - rewrite (rep_nonmember a Ma) in E. apply member_props in Mb as (_ & _ & Mb). rewrite <- E in Mb. congruence.
  - rewrite (rep_nonmember a Ma), (rep_nonmember b Mb) in E. subst. split; lia.
Qed.
