(* FoldFacts121.v — the table facts for the table file the toolchain
   compiles (tables_go121.go, regenerated into coq/gen/Tables121.v on every
   run) against the toolchain oracle dumped on the same run (coq/gen/Oracle.v).
   Every [chk_*] is a complete enumeration of the stored entries / oracle
   members by vm_compute (bound: <= 8192 slots, <= 2.9k orbit members);
   the theorems quantify over all int32 runes. *)
From Strcase Require Import Base Utf8 Fold FoldFacts FoldFacts2 FoldTables Refine_Compare.
From Strcase Require Export FoldFacts121a FoldFacts121h.
From StrcaseGen Require Tables121 Oracle Consts.
From Coq Require Import FMapPositive ZifyBool ZifyNat.

Definition R121 : rmap := build_rmap Oracle.orbits.

Lemma pairs121 : chk_pairs_in_orbit T121 R121 = true.
Proof. vm_compute. reflexivity. Qed.
Lemma members121 : chk_members_fold T121 R121 = true.
Proof. vm_compute. reflexivity. Qed.

Theorem fold121_orbit_exact a b :
  int32 a -> int32 b -> (fold121 a = fold121 b <-> rep R121 a = rep R121 b).
Proof. apply (fold_orbit_exact T121 R121 range121 pairs121 members121). Qed.

(* ---- the finite checks on the regenerated data (complete enumerations by vm_compute) ---- *)
Lemma singletons121 : holds (chk_singletons R121).
Proof. vm_compute. reflexivity. Qed.
Lemma width_ratio121 : holds (chk_width_ratio R121).
Proof. vm_compute. reflexivity. Qed.
Lemma fm_sound121 : holds (chk_fm_sound T121).
Proof. vm_compute. reflexivity. Qed.
Lemma ul_sound121 : holds (chk_ul_sound T121).
Proof. vm_compute. reflexivity. Qed.
Lemma special_sound121 : holds (chk_special_sound T121).
Proof. vm_compute. reflexivity. Qed.
Lemma cands_complete121 : holds (chk_cands_complete T121 R121).
Proof. vm_compute. reflexivity. Qed.
Lemma ascii_sound121 : holds (chk_ascii_sound T121).
Proof. vm_compute. reflexivity. Qed.
Lemma ascii_complete121 : holds (chk_ascii_complete R121).
Proof. vm_compute. reflexivity. Qed.
Lemma fx_sound121 : holds (chk_fx_sound T121).
Proof. vm_compute. reflexivity. Qed.
Lemma ul_sound2_121 : holds (chk_ul_sound2 T121).
Proof. vm_compute. reflexivity. Qed.
Lemma cand2_complete121 : holds (chk_cand2_complete T121 R121).
Proof. vm_compute. reflexivity. Qed.
Lemma ul_valid121 : holds (chk_ul_valid T121).
Proof. vm_compute. reflexivity. Qed.

(* ---- lifted to all runes by the generic lemmas of FoldFacts2.v ---- *)

(* a code point outside every listed orbit is equal only to itself *)
Theorem alone_in_orbit r x :
  int32 r -> int32 x -> is_member R121 r = false -> (fold121 x = fold121 r <-> x = r).
Proof. unfold fold121. exact (FoldFacts2.alone_in_orbit T121 R121 range121 pairs121 members121 singletons121 r x). Qed.

Lemma nonmember_outside r : (r < 0 \/ 1114111 < r \/ 55296 <= r <= 57343) -> is_member R121 r = false.
Proof. exact (FoldFacts2.nonmember_outside T121 R121 range121 pairs121 members121 singletons121 r). Qed.

Lemma nonmember_special : is_member R121 65533 = false /\ is_member R121 304 = false /\ is_member R121 305 = false.
Proof. exact (FoldFacts2.nonmember_special R121 singletons121). Qed.

(* _lower of both packages agrees with CaseFold on ASCII and is the identity above *)
Theorem rune_error_alone x : int32 x -> (fold121 x = fold121 RuneError <-> x = RuneError).
Proof. unfold fold121. exact (FoldFacts2.rune_error_alone T121 R121 range121 pairs121 members121 singletons121 x). Qed.

(* F9: fold-equal code points differ in encoded width by at most a factor 3,
   and by more than a factor 2 only for U+212A (vs k/K) *)
Theorem width_ratio a b :
  0 <= a <= MaxRune -> 0 <= b <= MaxRune -> 1 <= rune_len a -> 1 <= rune_len b ->
  fold121 a = fold121 b ->
  rune_len a <= 3 * rune_len b /\ (2 * rune_len b < rune_len a -> a = 8490).
Proof. unfold fold121. exact (FoldFacts2.width_ratio T121 R121 range121 pairs121 members121 singletons121 width_ratio121 a b). Qed.

(* F7: the candidate set the single-rune searches build from FoldMap /
   ToUpperLower is exactly the simple-folding orbit *)
Definition fold_map121 := fold_map T121.
Definition upper_lower121 := to_upper_lower T121.
Definition cands121 := cands T121.

Theorem cands_exact r x :
  128 <= r <= MaxRune -> int32 x -> (fold121 x = fold121 r <-> In x (cands121 r)).
Proof.
  unfold fold121, cands121.
  exact (FoldFacts2.cands_exact T121 R121 range121 pairs121 members121 singletons121
           fm_sound121 ul_sound121 special_sound121 cands_complete121 r x).
Qed.

Theorem cands_range r x : 128 <= r <= MaxRune -> In x (cands121 r) -> 0 <= x <= MaxRune.
Proof.
  unfold cands121.
  exact (FoldFacts2.cands_range T121 R121 range121 pairs121 members121 fm_sound121 ul_sound121 special_sound121 r x).
Qed.

(* F10: orbits of ASCII code points *)
Theorem ascii_cands_exact r x :
  0 <= r < 128 -> int32 x -> (fold121 x = fold121 r <-> In x (ascii_cands r)).
Proof.
  unfold fold121.
  exact (FoldFacts2.ascii_cands_exact T121 R121 range121 pairs121 members121 singletons121
           ascii_sound121 ascii_complete121 r x).
Qed.

(* F8: the candidate test of Index / bruteForceIndexUnicode for a first or second code point u *)
Definition fold_map_excl121 := fold_map_excl T121.
Theorem cand2_exact u r :
  0 <= u <= MaxRune -> int32 r -> (cand2 T121 u r = true <-> fold121 r = fold121 u).
Proof.
  unfold fold121.
  exact (FoldFacts2.cand2_exact T121 R121 range121 pairs121 members121 singletons121
           fx_sound121 ul_sound2_121 cand2_complete121 u r).
Qed.

(* the ToUpperLower step (with the U+0130 / U+0131 special case) returns scalar values that fold like u *)
Theorem ul_hack_facts u :
  valid_rune u = true ->
  fold121 (fst (ul_hack_of T121 u)) = fold121 u /\ fold121 (snd (ul_hack_of T121 u)) = fold121 u /\
  valid_rune (fst (ul_hack_of T121 u)) = true /\ valid_rune (snd (ul_hack_of T121 u)) = true.
Proof.
  intros V.
  assert (Hu : 0 <= u <= MaxRune) by (unfold valid_rune, MaxRune in *; lia).
  pose proof (FoldFacts2.ul_hack_cases T121 R121 range121 pairs121 members121
                ul_sound2_121 cand2_complete121 u Hu) as (F1 & F2 & _).
  pose proof (FoldFacts2.ul_hack_valid T121 R121 range121 pairs121 members121 ul_valid121 u V) as (V1 & V2).
  unfold fold121. repeat split; assumption.
Qed.
