(* Refine_RuneCase.v — the last-byte search loop of indexRuneCase returns the
   first raw occurrence of the encoding, for every cut-over function and
   both values of NativeIndex; it never panics and never runs out of fuel. *)
From Strcase Require Import Base Utf8 Spec Impl Impl4 Refine_Compare.
From Coq Require Import ZifyBool ZifyNat.

(* ---------- occurrences of a non-empty pattern ---------- *)

Definition occ (enc s : bytes) (p : nat) : bool := starts_with enc (skipn p s).

Lemma nth_skipn_add {A} (l : list A) m k d : nth k (skipn m l) d = nth (m + k) l d.
Proof.
  revert l. induction m as [|m IH]; intros l; [reflexivity|].
  destruct l as [|x l]; [destruct k; reflexivity|]. cbn [skipn Nat.add nth]. apply IH.
Qed.

Lemma starts_with_nth enc t :
  starts_with enc t = true <->
  (length enc <= length t)%nat /\ forall k, (k < length enc)%nat -> nth k t 0 = nth k enc 0.
Proof.
  revert t. induction enc as [|x enc IH]; intros t.
  - cbn. split; [intros _; split; [lia|intros k Hk; lia]|reflexivity].
  - destruct t as [|y t]; cbn [starts_with length].
    + split; [discriminate|intros [H _]; lia].
    + rewrite andb_true_iff, IH, Z.eqb_eq. split.
      * intros (-> & L & N). split; [lia|]. intros k Hk. destruct k as [|k]; [reflexivity|]. cbn [nth]. apply N. lia.
      * intros (L & N). split; [symmetry; apply (N 0%nat); lia|]. split; [lia|].
        intros k Hk. apply (N (S k)). lia.
Qed.

Lemma occ_nth enc s p :
  enc <> [] ->
  (occ enc s p = true <->
   (p + length enc <= length s)%nat /\ forall k, (k < length enc)%nat -> nth (p + k) s 0 = nth k enc 0).
Proof.
  intros Hne. unfold occ. rewrite starts_with_nth, skipn_length.
  assert (0 < length enc)%nat by (destruct enc; [congruence|cbn; lia]).
  split.
  - intros (L & N). split; [lia|]. intros k Hk. rewrite <- nth_skipn_add. apply N. exact Hk.
  - intros (L & N). split; [lia|]. intros k Hk. rewrite nth_skipn_add. apply N. exact Hk.
Qed.

Lemma occ_cons enc b s p : occ enc (b :: s) (S p) = occ enc s p.
Proof. reflexivity. Qed.

Lemma raw_index_least enc s i0 p :
  enc <> [] -> occ enc s p = true -> (forall q, (q < p)%nat -> occ enc s q = false) ->
  raw_index_pats [enc] s i0 = i0 + Z.of_nat p.
Proof.
  intros Hne. revert i0 p. induction s as [|b s IH]; intros i0 p Hp Hl.
  - unfold occ in Hp. rewrite skipn_nil in Hp. destruct enc; [congruence|discriminate].
  - cbn [raw_index_pats existsb]. rewrite orb_false_r. destruct p as [|p].
    + unfold occ in Hp. cbn [skipn] in Hp. rewrite Hp. lia.
    + pose proof (Hl 0%nat ltac:(lia)) as H0. unfold occ in H0. cbn [skipn] in H0. rewrite H0.
      rewrite (IH (i0 + 1) p); [lia|exact Hp|]. intros q Hq. apply (Hl (S q)). lia.
Qed.

Lemma raw_index_absent enc s i0 :
  (forall p, occ enc s p = false) -> raw_index_pats [enc] s i0 = -1.
Proof.
  revert i0. induction s as [|b s IH]; intros i0 H; [reflexivity|].
  cbn [raw_index_pats existsb]. rewrite orb_false_r.
  pose proof (H 0%nat) as H0. unfold occ in H0. cbn [skipn] in H0. rewrite H0.
  apply IH. intros p. apply (H (S p)).
Qed.

Lemma std_index_least s enc p :
  enc <> [] -> occ enc s p = true -> (forall q, (q < p)%nat -> occ enc s q = false) ->
  std_index s enc = Z.of_nat p.
Proof.
  intros Hne Ho Hl. unfold std_index. pose proof (raw_index_least enc s 0 p Hne Ho Hl) as E.
  rewrite Z.add_0_l in E. exact E.
Qed.

Lemma std_index_absent s enc : (forall p, occ enc s p = false) -> std_index s enc = -1.
Proof. apply raw_index_absent. Qed.

(* either there is a least occurrence or there is none *)
Lemma occ_least_or_none enc s :
  (forall p, occ enc s p = false) \/
  exists p, occ enc s p = true /\ forall q, (q < p)%nat -> occ enc s q = false.
Proof.
  assert (G : forall n, (forall p, (p < n)%nat -> occ enc s p = false) \/
                        exists p, occ enc s p = true /\ forall q, (q < p)%nat -> occ enc s q = false).
  { induction n as [|n [IH|IH]]; [left; intros p Hp; lia| |right; exact IH].
    destruct (occ enc s n) eqn:E.
    - right. exists n. split; [exact E|exact IH].
    - left. intros p Hp. destruct (Nat.eq_dec p n) as [->|Hne]; [exact E|apply IH; lia]. }
  destruct (G (S (length s))) as [N|E]; [|right; exact E].
  destruct enc as [|x enc].
  - right. exists 0%nat. split; [reflexivity|intros q Hq; lia].
  - left. intros p. destruct (le_lt_dec (S (length s)) p) as [Hge|Hlt]; [|apply N; exact Hlt].
    unfold occ. rewrite skipn_all2 by lia. reflexivity.
Qed.

Lemma occ_skipn enc s m q : occ enc (skipn m s) q = occ enc s (m + q).
Proof. unfold occ. rewrite skipn_skipn_add. reflexivity. Qed.

(* searching a suffix finds the least occurrence of the whole string when
   nothing occurs before the suffix *)
Lemma std_index_suffix s enc m :
  enc <> [] -> (forall p, (p < m)%nat -> occ enc s p = false) ->
  std_index s enc = (if std_index (skipn m s) enc =? -1 then -1 else Z.of_nat m + std_index (skipn m s) enc).
Proof.
  intros Hne Hb. destruct (occ_least_or_none enc (skipn m s)) as [N|(q & Hq & Hl)].
  - rewrite (std_index_absent _ _ N). cbn. apply std_index_absent. intros p.
    destruct (le_lt_dec m p) as [Hge|Hlt]; [|apply Hb; exact Hlt].
    replace p with (m + (p - m))%nat by lia. rewrite <- occ_skipn. apply N.
  - rewrite (std_index_least _ _ q Hne Hq Hl).
    replace (Z.of_nat q =? -1) with false by lia.
    rewrite (std_index_least s enc (m + q)); [lia|exact Hne|rewrite <- occ_skipn; exact Hq|].
    intros p Hp. destruct (le_lt_dec m p) as [Hge|Hlt]; [|apply Hb; exact Hlt].
    replace p with (m + (p - m))%nat by lia. rewrite <- occ_skipn. apply Hl. lia.
Qed.

(* ---------- strings.IndexByte ---------- *)

Lemma index_byte_from_spec f s i0 :
  (index_byte_from f s i0 = -1 /\ forall k, (k < length s)%nat -> f (nth k s 0) = false) \/
  (exists d, index_byte_from f s i0 = i0 + Z.of_nat d /\ (d < length s)%nat /\ f (nth d s 0) = true /\
             forall k, (k < d)%nat -> f (nth k s 0) = false) \/ i0 < 0.
Proof.
  destruct (Z_lt_le_dec i0 0) as [Hn|H0]; [right; right; exact Hn|].
  revert i0 H0. induction s as [|b s IH]; intros i0 H0; cbn [index_byte_from].
  - left. split; [reflexivity|]. intros k Hk. cbn in Hk. lia.
  - destruct (f b) eqn:E.
    + right. left. exists 0%nat. cbn [length nth]. repeat split; try lia; try exact E.
    + destruct (IH (i0 + 1) ltac:(lia)) as [[E1 N]|[(d & E1 & Hd & Hf & N)|Hn]]; [| |lia].
      * left. split; [exact E1|]. intros k Hk. destruct k as [|k]; [exact E|]. cbn [nth]. apply N. cbn [length] in Hk. lia.
      * right. left. exists (S d). cbn [length nth]. repeat split; try lia; try exact Hf.
        intros k Hk. destruct k as [|k]; [exact E|]. cbn [nth]. apply N. lia.
Qed.

(* ---------- the loops ---------- *)

Section Loop.
Variable native : bool.
Variable cutover : Z -> Z.
Variables s enc : bytes.
Hypothesis Hn2 : (2 <= length enc)%nat.
Hypothesis Hn4 : (length enc <= 4)%nat.   (* the native Index is called within its contract *)
(* for a two-byte pattern the first and last byte differ (lead byte vs continuation byte) *)
Hypothesis Hdiff : length enc = 2%nat -> nth 0 enc 0 <> nth 1 enc 0.

Let n := length enc.

Lemma enc_ne : enc <> [].
Proof. intros E. rewrite E in Hn2. cbn in Hn2. lia. Qed.

Lemma last_nth : last enc 0 = nth (n - 1) enc 0.
Proof.
  unfold n. clear Hdiff Hn4. induction enc as [|x e IH]; [cbn in Hn2; lia|].
  destruct e as [|y e]; [cbn in Hn2; lia|].
  destruct e as [|z e]; [reflexivity|].
  change (last (x :: y :: z :: e) 0) with (last (y :: z :: e) 0).
  rewrite IH by (cbn [length]; lia). cbn [length]. replace (S (S (S (length e))) - 1)%nat with (S (S (S (length e)) - 1)) by lia.
  reflexivity.
Qed.

(* no occurrence ends before byte position i *)
Definition inv (i : Z) : Prop :=
  Z.of_nat n - 1 <= i /\ forall p, Z.of_nat p + (Z.of_nat n - 1) < i -> occ enc s p = false.

Lemma len_enc : len enc = Z.of_nat n.
Proof. reflexivity. Qed.

Lemma slice_from_ok i : 0 <= i <= len s -> slice_from s i = Ok (skipn (Z.to_nat i) s).
Proof. intros H. unfold slice_from. replace ((0 <=? i) && (i <=? len s)) with true by lia. reflexivity. Qed.

Lemma get_ok i : 0 <= i < len s -> get s i = Ok (nth (Z.to_nat i) s 0).
Proof. intros H. unfold get. replace ((0 <=? i) && (i <? len s)) with true by lia. reflexivity. Qed.

Lemma occ_last p : occ enc s p = true -> nth (p + (n - 1)) s 0 = last enc 0.
Proof.
  intros H. apply (occ_nth enc s p enc_ne) in H as [_ N]. rewrite last_nth. apply N. unfold n. lia.
Qed.

Lemma occ_len p : occ enc s p = true -> (p + n <= length s)%nat.
Proof. intros H. apply (occ_nth enc s p enc_ne) in H as [L _]. exact L. Qed.

Lemma inv_done i : inv i -> len s <= i -> std_index s enc = -1.
Proof.
  intros [Hi N] Hl. apply std_index_absent. intros p. destruct (occ enc s p) eqn:E; [|reflexivity].
  pose proof (occ_len p E) as L. rewrite (N p) in E; [discriminate|]. unfold len in Hl. lia.
Qed.

(* an occurrence at the candidate position i - (n-1) *)
Lemma candidate_iff i :
  Z.of_nat n - 1 <= i < len s -> nth (Z.to_nat i) s 0 = last enc 0 ->
  starts_with (removelast enc) (skipn (Z.to_nat (i - (Z.of_nat n - 1))) s) = occ enc s (Z.to_nat (i - (Z.of_nat n - 1))).
Proof.
  intros Hi Hl. set (p := Z.to_nat (i - (Z.of_nat n - 1))).
  assert (Hp : (p + (n - 1))%nat = Z.to_nat i) by (unfold p; lia).
  assert (Lr : length (removelast enc) = (n - 1)%nat).
  { unfold n. clear Hdiff Hn4 Hl Hi p Hp. destruct enc as [|x e]; [reflexivity|].
    rewrite (app_removelast_last (l := x :: e) 0) at 2 by discriminate.
    rewrite app_length. cbn [length]. lia. }
  assert (Nr : forall k, (k < n - 1)%nat -> nth k (removelast enc) 0 = nth k enc 0).
  { intros k Hk. rewrite (app_removelast_last (l := enc) 0) at 2 by exact enc_ne.
    rewrite app_nth1 by lia. reflexivity. }
  destruct (occ enc s p) eqn:E.
  - apply (occ_nth enc s p enc_ne) in E as [L N]. apply starts_with_nth. rewrite skipn_length, Lr. split; [unfold n in *; lia|].
    intros k Hk. rewrite nth_skipn_add, Nr by exact Hk. apply N. unfold n in *. lia.
  - destruct (starts_with (removelast enc) (skipn p s)) eqn:S; [|reflexivity]. exfalso.
    apply starts_with_nth in S as [L N]. rewrite skipn_length, Lr in L.
    assert (O : occ enc s p = true); [|congruence].
    apply (occ_nth enc s p enc_ne). unfold len in Hi. split; [unfold n in *; lia|].
    intros k Hk. fold n in Hk. destruct (Nat.eq_dec k (n - 1)) as [->|Hne].
    + rewrite Hp, Hl, last_nth. reflexivity.
    + rewrite <- nth_skipn_add, <- Nr by lia. apply N. lia.
Qed.

Lemma inv_step i : inv i -> i < len s ->
  occ enc s (Z.to_nat (i - (Z.of_nat n - 1))) = false -> inv (i + 1).
Proof.
  intros [Hi N] Hl Ho. split; [lia|]. intros p Hp.
  destruct (Z.eq_dec (Z.of_nat p) (i - (Z.of_nat n - 1))) as [E|E].
  - replace p with (Z.to_nat (i - (Z.of_nat n - 1))) by lia. exact Ho.
  - apply N. lia.
Qed.

(* bytes that are not the last byte of the pattern cannot end an occurrence *)
Lemma inv_skip i j : inv i -> i <= j ->
  (forall q, i <= Z.of_nat q < j -> nth q s 0 <> last enc 0) -> inv j.
Proof.
  intros [Hi N] Hj Hq. split; [lia|]. intros p Hp.
  destruct (Z_lt_le_dec (Z.of_nat p + (Z.of_nat n - 1)) i) as [Hlt|Hge]; [apply N; exact Hlt|].
  destruct (occ enc s p) eqn:E; [|reflexivity]. apply occ_last in E.
  exfalso. apply (Hq (p + (n - 1))%nat); [unfold n in *; lia|exact E].
Qed.

Lemma irc_fallback_ok fuel i :
  inv i -> (Z.to_nat (len s - i) < fuel)%nat ->
  irc_fallback fuel s enc i = Ok (std_index s enc).
Proof.
  revert i. induction fuel as [|f IH]; intros i Hinv Hf; [lia|].
  cbn [irc_fallback]. destruct (i <? len s) eqn:L.
  - destruct Hinv as [Hi N]. rewrite len_enc. rewrite slice_from_ok by lia. cbn [bind].
    fold (occ enc s (Z.to_nat (i - (Z.of_nat n - 1)))).
    destruct (occ enc s (Z.to_nat (i - (Z.of_nat n - 1)))) eqn:O.
    + rewrite (std_index_least s enc _ enc_ne O); [f_equal; lia|]. intros q Hq. apply N. lia.
    + apply IH; [apply inv_step; [split; assumption|lia|exact O]|lia].
  - rewrite (inv_done i Hinv) by lia. reflexivity.
Qed.

Lemma nth_Zskipn i k : 0 <= i -> nth k (skipn (Z.to_nat i) s) 0 = nth (Z.to_nat i + k) s 0.
Proof. intros _. apply nth_skipn_add. Qed.

Lemma irc_loop_ok fuel i fails :
  inv i -> (Z.to_nat (len s - i) < fuel)%nat ->
  irc_loop native cutover fuel s enc i fails = Ok (std_index s enc).
Proof.
  revert i fails. induction fuel as [|f IH]; intros i fails Hinv Hf; [lia|].
  cbn [irc_loop]. destruct (i <? len s) eqn:L; [|rewrite (inv_done i Hinv) by lia; reflexivity].
  pose proof Hinv as [Hi N].
  rewrite get_ok by lia. cbn [bind]. rewrite slice_from_ok by lia. cbn [bind].
  rewrite len_enc.
  set (cl := last enc 0). set (b := nth (Z.to_nat i) s 0).
  set (o := std_index_byte (skipn (Z.to_nat (i + 1)) s) cl).
  (* the position i1 of the next byte equal to cl, if any *)
  assert (Hnext : (negb (b =? cl) && (o <? 0) = true /\ std_index s enc = -1) \/
                  (negb (b =? cl) && (o <? 0) = false /\
                   let i1 := if b =? cl then i else i + o + 1 in
                   i <= i1 < len s /\ nth (Z.to_nat i1) s 0 = cl /\ inv i1)).
  { destruct (b =? cl) eqn:B.
    - right. cbn [negb andb]. split; [reflexivity|]. cbv zeta. repeat split; try lia; try (unfold b in B; lia); try (apply Hinv; assumption).
    - cbn [negb andb]. unfold o, std_index_byte.
      destruct (index_byte_from_spec (fun x => x =? cl) (skipn (Z.to_nat (i + 1)) s) 0) as [[E1 Nn]|[(d & E1 & Hd & Hfd & Nn)|Hneg]]; [| |lia].
      + left. rewrite E1. split; [reflexivity|].
        apply (inv_done (len s)); [|lia]. apply (inv_skip i); [exact Hinv|lia|].
        intros q Hq. destruct (Z.eq_dec (Z.of_nat q) i) as [Eq|Ne].
        * replace q with (Z.to_nat i) by lia. unfold b in B. lia.
        * specialize (Nn (q - Z.to_nat (i + 1))%nat). rewrite skipn_length in Nn.
          unfold len in Hq. specialize (Nn ltac:(lia)). rewrite nth_skipn_add in Nn.
          replace (Z.to_nat (i + 1) + (q - Z.to_nat (i + 1)))%nat with q in Nn by lia. lia.
      + right. rewrite E1. rewrite skipn_length in Hd. unfold len in *.
        split; [lia|]. cbv zeta. rewrite nth_skipn_add in Hfd.
        replace (Z.to_nat (i + (0 + Z.of_nat d) + 1)) with (Z.to_nat (i + 1) + d)%nat by lia.
        repeat split; try lia.
        apply (inv_skip i); [exact Hinv|lia|].
        intros q Hq. destruct (Z.eq_dec (Z.of_nat q) i) as [Eq|Ne].
        * replace q with (Z.to_nat i) by lia. unfold b in B. lia.
        * specialize (Nn (q - Z.to_nat (i + 1))%nat ltac:(lia)). rewrite nth_skipn_add in Nn.
          replace (Z.to_nat (i + 1) + (q - Z.to_nat (i + 1)))%nat with q in Nn by lia. lia. }
  destruct Hnext as [[C E]|[C Hi1]]; rewrite C; [rewrite E; reflexivity|].
  cbv zeta in Hi1. set (i1 := if b =? cl then i else i + o + 1) in *.
  destruct Hi1 as (Hr1 & Hc1 & Hinv1). pose proof Hinv1 as [Hi1 N1].
  rewrite slice_from_ok by lia. cbn [bind].
  rewrite (candidate_iff i1) by (try lia; exact Hc1).
  destruct (occ enc s (Z.to_nat (i1 - (Z.of_nat n - 1)))) eqn:O.
  { rewrite (std_index_least s enc _ enc_ne O); [f_equal; lia|]. intros q Hq. apply N1. lia. }
  pose proof (inv_step i1 Hinv1 ltac:(lia) O) as Hinv2.
  match goal with |- (if ?c then _ else _) = _ => destruct c eqn:CO end.
  2:{ apply IH; [exact Hinv2|lia]. }
  apply andb_true_iff in CO as [_ L2].
  destruct native eqn:NT; [|apply irc_fallback_ok; [exact Hinv2|unfold len in *; lia]].
  pose proof Hinv2 as [Hi2 N2].
  set (from := if Z.of_nat n =? 2 then i1 + 1 else i1 + 1 - (Z.of_nat n - 1)).
  assert (Hfrom : 0 <= from <= len s) by (unfold from; destruct (Z.of_nat n =? 2); lia).
  rewrite slice_from_ok by exact Hfrom. cbn [bind].
  assert (Hb : forall p, (p < Z.to_nat from)%nat -> occ enc s p = false).
  { intros p Hp. unfold from in Hp. destruct (Z.of_nat n =? 2) eqn:N2'.
    - destruct (Z.eq_dec (Z.of_nat p) i1) as [E|E]; [|apply N2; lia].
      (* an occurrence starting at i1 would need s[i1] = enc[0], but s[i1] = enc[1] *)
      destruct (occ enc s p) eqn:Op; [|reflexivity]. exfalso.
      apply (occ_nth enc s p enc_ne) in Op as [_ Nn]. specialize (Nn 0%nat ltac:(unfold n in *; lia)).
      rewrite Nat.add_0_r in Nn. replace p with (Z.to_nat i1) in Nn by lia. rewrite Hc1 in Nn.
      unfold cl in Nn. rewrite last_nth in Nn. replace (n - 1)%nat with 1%nat in Nn by lia.
      apply Hdiff; [unfold n in *; lia|]. symmetry. exact Nn.
    - apply N2. lia. }
  unfold native_index. replace ((2 <=? len enc) && (len enc <=? 4)) with true by (unfold len; lia). cbn [bind].
  rewrite (std_index_suffix s enc (Z.to_nat from) enc_ne Hb).
  destruct (std_index (skipn (Z.to_nat from) s) enc =? -1); [reflexivity|f_equal; lia].
Qed.

End Loop.
