(* X86Count.v — the amd64 assembly of Count / CountString (count_go122_amd64.s,
   translated by tools/asm2prog.py into prog_count_go122_amd64): with POPCNT
   available, the body for needles that are not ASCII letters (countbody)
   returns the number of bytes equal to the needle, the body for letters
   (countbodyCase) the number of bytes equal to the needle in either case; for
   every argument, at every address and alignment, whatever surrounds it in
   memory, with and without AVX2; every load stays inside the pages of the
   argument and the only store is the result.  Without POPCNT both wrappers
   tail-call the Go fallback (modelled and proved in Kernels.v). *)
From Coq Require Import List ZArith Lia Bool.
From Strcase Require Import Base Spec Kernels X86 X86Facts X86CountFacts X86IndexByte.
From StrcaseGen Require Import AsmProg.
From Coq Require Import ZifyBool ZifyNat.
Import ListNotations.
Open Scope Z_scope.

Lemma signed64_small' v : 0 <= v < two63 -> signed64 v = v.
Proof. intros H. unfold signed64. replace (v <? two63) with true by lia. reflexivity. Qed.

Section K.
Variables (A : Z) (s : list Z) (junk : Z -> Z) (slot : Z) (avx2 popcnt : bool) (c : Z).
Hypothesis HA : 4096 <= A.
Hypothesis Hlen : A + X86.len s < two63.
Hypothesis Hwf : Forall (fun b => 0 <= b < 256) s.

Notation P := prog_count_go122_amd64.
Notation run := (X86.run A s junk slot avx2 popcnt c P).
Notation len := (X86.len s).

(* one instruction; the fuel may be an existential variable, which is then refined to a successor *)
Ltac ystep :=
  lazymatch goal with
  | |- context [X86.run _ _ _ _ _ _ _ ?PR ?fu ?pc ?st] =>
    (tryif is_evar fu then (let e := open_constr:(_ : nat) in unify fu (S e)) else idtac);
    lazymatch goal with
    | |- context [X86.run _ _ _ _ _ _ _ PR (S ?f) pc st] =>
      rewrite (run_S A s junk slot avx2 popcnt c PR f pc st _ eq_refl);
      cbv beta iota zeta delta [X86.step val ea wr64 wr64f rg vr set_reg set_vr set_fl set_res m_disp m_base m_idx
           gAX gBX gCX gDX gSI gDI gR8 gR9 gR10 gR11 gR12 gR13 gR14 gR15 v0 v1 v2 v3 v4 v5 v6 v7 fl res]
    end
  end.

Lemma len_nonneg : 0 <= len.
Proof. unfold X86.len. lia. Qed.

Lemma nil_of_len0 : len = 0 -> s = [].
Proof. unfold X86.len. destruct s; [reflexivity|cbn [length]; lia]. Qed.

Lemma bytes_range a n : Forall (fun b => 0 <= b < 256) (bytes_at A s junk a n).
Proof.
  revert a. induction n as [|n IH]; intros a; [constructor|]. cbn [bytes_at]. constructor; [|apply IH].
  unfold X86.byte_at. destruct ((A <=? a) && (a <? A + len)) eqn:E.
  - rewrite Forall_forall in Hwf. apply Hwf. apply nth_In. unfold X86.len in E. lia.
  - lia.
Qed.

Lemma chunk_readable a n : A <= a -> a + Z.of_nat n <= A + len ->
  forall k, (k < n)%nat -> readable A s (a + Z.of_nat k) = true.
Proof. intros Ha Hb k Hk. apply (readable_inside A s junk). lia. Qed.


(* ===================================================================== *)
(* the body for needles that are not letters: lanes equal to cc           *)
(* ===================================================================== *)
Section Plain.
Variable cc : Z.
Notation f := (Z.eqb cc).
Notation t := (map (ind f) s).

Lemma t_length : length t = length s.
Proof. apply map_length. Qed.

Lemma chunkT w off : (off + w <= length s)%nat ->
  let data := firstn w (skipn off s) in
  load A s junk w (A + Z.of_nat off) = Some data /\ length data = w /\ map (ind f) data = firstn w (skipn off t).
Proof.
  intros H data. split; [|split].
  - rewrite (load_bytes A s junk w) by (apply chunk_readable; unfold X86.len; lia).
    rewrite (bytes_at_inside A s junk) by (unfold X86.len; lia). unfold data. do 3 f_equal. lia.
  - unfold data. rewrite firstn_length, skipn_length. lia.
  - unfold data. rewrite skipn_map, firstn_map. reflexivity.
Qed.

(* ---------- lengths below 16 ---------- *)
Lemma small_path ax cx dx di r9 r10 r11 r12 r13 r14 r15 x0 x1 x2 x3 x4 x5 x6 x7 :
  len < 16 -> vlow 16 x0 = repeat cc 16 ->
  exists fuel, run fuel 165 (mk ax len cx dx A di slot r9 r10 r11 r12 r13 r14 r15 x0 x1 x2 x3 x4 x5 x6 x7 (cmp_flags len 16 signed64) None)
               = Done (Some (cnt t)).
Proof.
  intros Hl Hx0. pose proof len_nonneg as H0. unfold mk. unfold two63 in Hlen.
  destruct (Z.eq_dec len 0) as [E0|N0].
  { (* empty *)
    eexists. ystep. rewrite holds_cmp_LT by (unfold two63; lia). replace (len <? 16) with true by lia. cbv iota.
    ystep. ystep. cbn [holds zf logic_flags zflag]. rewrite Z.land_diag. replace (len =? 0) with true by lia. cbv iota.
    ystep. replace (0 + slot + 0 =? slot) with true by lia. cbv iota. ystep.
    rewrite (nil_of_len0 E0). reflexivity. }
  set (n := length s). assert (Hn : len = Z.of_nat n) by reflexivity.
  assert (Lt : length t = n) by apply t_length.
  pose proof (movmsk_range t) as Rs. rewrite Lt in Rs.
  assert (P16 : 2 ^ Z.of_nat n <= 2 ^ 15) by (apply Z.pow_le_mono_r; lia). change (2 ^ 15) with 32768 in P16.
  pose proof (cnt_range t) as Rc. rewrite Lt in Rc.
  assert (Pl : 1 <= 2 ^ len <= 32768) by (rewrite Hn; split; [change 1 with (2 ^ 0); apply Z.pow_le_mono_r; lia|exact P16]).
  destruct (Z_lt_le_dec ((16 + A + 0) mod 4096) 16) as [Pg|Pg].
  - (* the 16-byte load at s would cross into the next page: load the 16 bytes that END at the end of s *)
    assert (Hrd : forall k, (k < 16)%nat -> readable A s (-16 + A + len * 1 + Z.of_nat k) = true).
    { intros k Hk. destruct (Z_lt_le_dec (-16 + A + len * 1 + Z.of_nat k) A) as [Lo|Hi].
      - apply (readable_first_page A s junk); lia.
      - apply (readable_inside A s junk); lia. }
    set (J := bytes_at A s junk (A - Z.of_nat (16 - n)) (16 - n)).
    assert (Eb : bytes_at A s junk (-16 + A + len * 1) 16 = J ++ s).
    { replace (-16 + A + len * 1) with (A - Z.of_nat (16 - n)) by lia.
      pose proof (bytes_at_app A s junk (A - Z.of_nat (16 - n)) (16 - n) n) as B.
      replace ((16 - n) + n)%nat with 16%nat in B by lia. rewrite B.
      replace (A - Z.of_nat (16 - n) + Z.of_nat (16 - n)) with A by lia. unfold J. f_equal. apply bytes_at_whole. }
    assert (LJ : length (J ++ s) = 16%nat) by (rewrite app_length; unfold J; rewrite bytes_at_length; lia).
    set (tJ := map (ind f) J).
    assert (LJ0 : length tJ = (16 - n)%nat) by (unfold tJ; rewrite map_length; unfold J; apply bytes_at_length).
    assert (Lz : (length (repeat 0%Z (length tJ) ++ t) <= 64)%nat) by (rewrite app_length, repeat_length, LJ0, Lt; lia).
    assert (Rz : 0 <= movmsk (repeat 0 (length tJ) ++ t) < 65536).
    { pose proof (movmsk_range (repeat 0 (length tJ) ++ t)) as R. rewrite app_length, repeat_length in R.
      replace (Z.of_nat (length tJ + length t)) with 16 in R by lia. exact R. }
    eexists. ystep. rewrite holds_cmp_LT by (unfold two63; lia). replace (len <? 16) with true by lia. cbv iota.
    ystep. ystep. cbn [holds zf logic_flags zflag]. rewrite Z.land_diag. replace (len =? 0) with false by lia. cbv iota.
    ystep. rewrite in64_true by (unfold two64; lia). cbv iota.
    ystep. ystep. cbn [holds zf logic_flags zflag]. rewrite testw_page by lia. replace ((16 + A + 0) mod 4096 <? 16) with true by lia. cbv iota.
    ystep. ystep. change (16 mod two64) with 16. rewrite in64_true by (unfold two64; lia). cbv iota.
    ystep. ystep. ystep. rewrite (mask16 len) by lia.
    ystep. rewrite (load_bytes A s junk 16 _ Hrd), Eb. cbv iota.
    ystep. ystep. rewrite (cmp_low16 cc _ _ _ _ Hx0 LJ), map_app. fold tJ.
    ystep. replace (2 ^ len) with (2 ^ Z.of_nat (length t)) by (rewrite Lt; f_equal; lia).
    replace (2 ^ (16 - len)) with (2 ^ Z.of_nat (length tJ)) by (rewrite LJ0; f_equal; lia).
    rewrite (land_high_mask tJ t).
    ystep. unfold two32. rewrite (Z.mod_small (movmsk (repeat 0 (length tJ) ++ t))) by lia.
    rewrite (popcnt_movmsk _ Lz), cnt_app, cnt_repeat0.
    ystep. replace (0 + slot + 0 =? slot) with true by lia. cbv iota.
    ystep. f_equal. f_equal. apply signed64_small'. unfold two63. lia.
  - (* load 16 bytes at s: s followed by 16 - len bytes of the same page *)
    assert (Hrd : forall k, (k < 16)%nat -> readable A s (0 + A + 0 + Z.of_nat k) = true).
    { intros k Hk. apply (readable_first_page A s junk); lia. }
    set (J := bytes_at A s junk (A + Z.of_nat n) (16 - n)).
    assert (Eb : bytes_at A s junk (0 + A + 0) 16 = s ++ J).
    { replace (0 + A + 0) with A by lia. replace 16%nat with (n + (16 - n))%nat by lia.
      rewrite bytes_at_app. unfold n at 1. rewrite bytes_at_whole. reflexivity. }
    assert (LJ : length (s ++ J) = 16%nat) by (rewrite app_length; unfold J; rewrite bytes_at_length; lia).
    set (tJ := map (ind f) J).
    assert (Lt64 : (length t <= 64)%nat) by lia.
    eexists. ystep. rewrite holds_cmp_LT by (unfold two63; lia). replace (len <? 16) with true by lia. cbv iota.
    ystep. ystep. cbn [holds zf logic_flags zflag]. rewrite Z.land_diag. replace (len =? 0) with false by lia. cbv iota.
    ystep. rewrite in64_true by (unfold two64; lia). cbv iota.
    ystep. ystep. cbn [holds zf logic_flags zflag]. rewrite testw_page by lia. replace ((16 + A + 0) mod 4096 <? 16) with false by lia. cbv iota.
    ystep. ystep. ystep.
    match goal with |- context [2 ^ (?e mod 64)] => replace (e mod 64) with (len mod 64) by lia end.
    ystep. rewrite (mask_low len) by lia. rewrite in64_true by (unfold two64; lia). cbv iota.
    ystep. rewrite (load_bytes A s junk 16 _ Hrd), Eb. cbv iota.
    ystep. ystep. rewrite (cmp_low16 cc _ _ _ _ Hx0 LJ), map_app. fold tJ.
    ystep. replace (2 ^ len) with (2 ^ Z.of_nat (length t)) by (rewrite Lt; f_equal; lia). rewrite (land_low_mask t tJ).
    ystep. unfold two32. rewrite (Z.mod_small (movmsk t)) by lia. rewrite (popcnt_movmsk _ Lt64).
    ystep. replace (0 + slot + 0 =? slot) with true by lia. cbv iota.
    ystep. f_equal. f_equal. apply signed64_small'. unfold two63. lia.
  Unshelve. all: exact O.
Qed.

(* ---------- lengths from 16: the SSE loop ---------- *)

(* after the loop: the last len mod 16 bytes, taken from the 16 bytes that end at the end of s *)
Lemma sse_tail (k : nat) ax cx dx di r9 r10 r11 r12 r13 r14 r15 x0 x1 x2 x3 x4 x5 x6 x7 fl0 :
  16 <= len -> ax = A + len - 16 -> 16 * Z.of_nat k <= len < 16 * Z.of_nat k + 16 ->
  r12 = cnt (firstn (16 * k) t) -> vlow 16 x0 = repeat cc 16 ->
  exists fuel, run fuel 181 (mk ax len cx dx A di slot r9 r10 r11 r12 r13 r14 r15 x0 x1 x2 x3 x4 x5 x6 x7 fl0 None) = Done (Some (cnt t)).
Proof.
  intros Hl Eax Hk Er12 Hx0. pose proof len_nonneg as H0. unfold two63 in Hlen.
  assert (Hn : len = Z.of_nat (length s)) by reflexivity. pose proof t_length as Lt.
  pose proof (cnt_range t) as Rc. rewrite Lt in Rc.
  pose proof (cnt_range (firstn (16 * k) t)) as Rck. rewrite firstn_length, Lt in Rck.
  set (r := len mod 16). assert (Hr : r = len - 16 * Z.of_nat k) by (unfold r; lia).
  destruct (Z.eq_dec r 0) as [R0|Rn0].
  - eexists. unfold mk. ystep. rewrite land15 by lia. fold r.
    ystep. cbn [holds zf logic_flags zflag]. replace (r =? 0) with true by lia. cbv iota.
    ystep. replace (0 + slot + 0 =? slot) with true by lia. cbv iota.
    ystep. f_equal. f_equal. rewrite signed64_small' by (unfold two63; lia). rewrite Er12. f_equal.
    apply firstn_all2. lia.
  - set (r' := Z.to_nat r). set (off := (length s - 16)%nat). set (K := (16 * k)%nat).
    destruct (chunkT 16 off) as (Hld & Hlc & Hm); [unfold off; lia|].
    replace (A + Z.of_nat off) with ax in Hld by (unfold off; lia).
    set (data := firstn 16 (skipn off s)) in *.
    assert (Ls : length (skipn off t) = 16%nat) by (rewrite skipn_length, Lt; unfold off; lia).
    rewrite (firstn_all2 (n := 16) (skipn off t)) in Hm by lia.
    set (J := firstn (16 - r') (skipn off t)). set (T := skipn K t).
    assert (Esp : skipn off t = J ++ T).
    { unfold J, T. rewrite <- (firstn_skipn (16 - r') (skipn off t)) at 1. f_equal.
      rewrite skipn_skipn'. f_equal. unfold off, K, r'. lia. }
    assert (LJ : length J = (16 - r')%nat) by (unfold J; rewrite firstn_length, Ls; unfold r'; lia).
    assert (LT : length T = r') by (unfold T; rewrite skipn_length, Lt; unfold K, r'; lia).
    assert (Lz : (length (repeat 0%Z (length J) ++ T) <= 64)%nat) by (rewrite app_length, repeat_length, LJ, LT; lia).
    assert (Rz : 0 <= movmsk (repeat 0 (length J) ++ T) < 65536).
    { pose proof (movmsk_range (repeat 0 (length J) ++ T)) as R. rewrite app_length, repeat_length in R.
      replace (Z.of_nat (length J + length T)) with 16 in R by (rewrite LJ, LT; unfold r'; lia). exact R. }
    pose proof (cnt_range T) as RcT. rewrite LT in RcT.
    eexists. unfold mk. ystep. rewrite land15 by lia. fold r.
    ystep. cbn [holds zf logic_flags zflag]. replace (r =? 0) with false by lia. cbv iota.
    ystep. ystep. change (16 mod two64) with 16. rewrite in64_true by (unfold two64; lia). cbv iota.
    ystep. ystep. ystep. rewrite (mask16 r) by lia.
    ystep. replace (0 + ax + 0) with ax by lia. rewrite Hld. cbv iota.
    ystep. ystep. rewrite (cmp_low16 cc _ _ _ _ Hx0 Hlc), Hm, Esp.
    ystep. replace (2 ^ r) with (2 ^ Z.of_nat (length T)) by (rewrite LT; f_equal; unfold r'; lia).
    replace (2 ^ (16 - r)) with (2 ^ Z.of_nat (length J)) by (rewrite LJ; f_equal; unfold r'; lia).
    rewrite (land_high_mask J T).
    ystep. unfold two32. rewrite (Z.mod_small (movmsk (repeat 0 (length J) ++ T))) by lia.
    rewrite (popcnt_movmsk _ Lz), cnt_app, cnt_repeat0.
    ystep. rewrite in64_true by (unfold two64; unfold r' in RcT; lia). cbv iota.
    ystep. replace (0 + slot + 0 =? slot) with true by lia. cbv iota.
    ystep. f_equal. f_equal. rewrite signed64_small' by (unfold two63; unfold r' in RcT; lia).
    rewrite Er12. fold K. rewrite (cnt_split K t). fold T. lia.
  Unshelve. all: exact O.
Qed.

(* the loop: invariant "R12 counts the first 16k lanes of t", measure = whole chunks left *)
Lemma sse_loop (m : nat) : forall (k : nat) ax cx dx di r9 r10 r11 r12 r13 r14 r15 x0 x1 x2 x3 x4 x5 x6 x7 fl0,
  16 <= len -> ax = A + len - 16 -> di = A + 16 * Z.of_nat k -> 16 * Z.of_nat k <= len ->
  r12 = cnt (firstn (16 * k) t) -> len - 16 * Z.of_nat k < 16 * Z.of_nat m + 16 -> vlow 16 x0 = repeat cc 16 ->
  exists fuel, run fuel 179 (mk ax len cx dx A di slot r9 r10 r11 r12 r13 r14 r15 x0 x1 x2 x3 x4 x5 x6 x7 fl0 None) = Done (Some (cnt t)).
Proof.
  induction m as [|m IH]; intros k ax cx dx di r9 r10 r11 r12 r13 r14 r15 x0 x1 x2 x3 x4 x5 x6 x7 fl0 Hl Eax Edi Hk Er12 Hm Hx0;
    pose proof len_nonneg as H0; unfold two63 in Hlen; assert (Hn : len = Z.of_nat (length s)) by reflexivity; pose proof t_length as Lt.
  - destruct (sse_tail k ax cx dx di r9 r10 r11 r12 r13 r14 r15 x0 x1 x2 x3 x4 x5 x6 x7 (cmp_flags di ax signed64) Hl Eax) as [fu Hfu]; [lia|exact Er12|exact Hx0|].
    eexists. unfold mk. ystep. ystep. rewrite holds_cmp_BE. replace (di <=? ax) with false by lia. cbv iota.
    exact Hfu.
  - destruct (Z_le_gt_dec di ax) as [Hle|Hgt].
    + destruct (chunkT 16 (16 * k)) as (Hld & Hlc & Hmm); [lia|].
      replace (A + Z.of_nat (16 * k)) with di in Hld by lia.
      set (data := firstn 16 (skipn (16 * k) s)) in *.
      assert (Lm : length (map (ind f) data) = 16%nat) by (rewrite map_length; exact Hlc).
      assert (Lm64 : (length (map (ind f) data) <= 64)%nat) by lia.
      pose proof (movmsk_range (map (ind f) data)) as Rm. rewrite Lm in Rm. change (2 ^ Z.of_nat 16) with 65536 in Rm.
      pose proof (cnt_range (map (ind f) data)) as Rcd. rewrite Lm in Rcd.
      pose proof (cnt_range (firstn (16 * k) t)) as Rck. rewrite firstn_length, Lt in Rck.
      assert (Enext : r12 + cnt (map (ind f) data) = cnt (firstn (16 * S k) t)).
      { replace (16 * S k)%nat with (16 * k + 16)%nat by lia. rewrite firstn_add, cnt_app, <- Hmm, Er12. reflexivity. }
      destruct (IH (S k) ax cx (cnt (map (ind f) data)) (di + 16) r9 r10 r11 (r12 + cnt (map (ind f) data)) r13 r14 r15 x0
                  (vput 16 (map2 (fun x y => if x =? y then 255 else 0) x0 (vput 16 data x1)) (vput 16 data x1)) x2 x3 x4 x5 x6 x7
                  noflags Hl Eax) as [fu Hfu]; try lia; [exact Hx0|].
      eexists. unfold mk. ystep. ystep. rewrite holds_cmp_BE. replace (di <=? ax) with true by lia. cbv iota.
      ystep. replace (0 + di + 0) with di by lia. rewrite Hld. cbv iota.
      ystep. ystep. rewrite (cmp_low16 cc _ _ _ _ Hx0 Hlc).
      ystep. unfold two32. rewrite (Z.mod_small (movmsk (map (ind f) data))) by lia. rewrite (popcnt_movmsk _ Lm64).
      ystep. rewrite in64_true by (unfold two64; lia). cbv iota.
      ystep. change (16 mod two64) with 16. rewrite in64_true by (unfold two64; lia). cbv iota.
      unfold mk in Hfu. exact Hfu.
    + destruct (sse_tail k ax cx dx di r9 r10 r11 r12 r13 r14 r15 x0 x1 x2 x3 x4 x5 x6 x7 (cmp_flags di ax signed64) Hl Eax) as [fu Hfu]; [lia|exact Er12|exact Hx0|].
      eexists. unfold mk. ystep. ystep. rewrite holds_cmp_BE. replace (di <=? ax) with false by lia. cbv iota.
      exact Hfu.
  Unshelve. all: exact O.
Qed.

(* from the dispatch: lengths 16..63, and every length from 16 when the CPU has no AVX2 *)
Lemma sse_path ax cx dx di r9 r10 r11 r12 r13 r14 r15 x0 x1 x2 x3 x4 x5 x6 x7 :
  16 <= len -> (len < 64 \/ avx2 = false) -> vlow 16 x0 = repeat cc 16 ->
  exists fuel, run fuel 165 (mk ax len cx dx A di slot r9 r10 r11 r12 r13 r14 r15 x0 x1 x2 x3 x4 x5 x6 x7 (cmp_flags len 16 signed64) None)
               = Done (Some (cnt t)).
Proof.
  intros Hl Hor Hx0. pose proof len_nonneg as H0. unfold two63 in Hlen.
  destruct (Z_lt_le_dec len 64) as [H64|H64].
  - destruct (sse_loop (Z.to_nat len) 0 (-16 + A + len * 1) cx dx A r9 r10 r11 (0 mod two64) r13 r14 r15 x0 x1 x2 x3 x4 x5 x6 x7
                (cmp_flags len (64 mod two64) signed64) Hl) as [fu Hfu]; try lia; [reflexivity|exact Hx0|].
    eexists. unfold mk.
    ystep. rewrite holds_cmp_LT by (unfold two63; lia). replace (len <? 16) with false by lia. cbv iota.
    ystep. ystep. ystep. ystep. rewrite holds_cmp_AE. change (64 mod two64) with 64. replace (64 <=? len) with false by lia. cbv iota.
    ystep. rewrite in64_true by (unfold two64; lia). cbv iota.
    ystep. exact Hfu.
  - destruct Hor as [Hor|Hor]; [lia|].
    destruct (sse_loop (Z.to_nat len) 0 (-16 + A + len * 1) cx dx A r9 r10 r11 (0 mod two64) r13 r14 r15 x0 x1 x2 x3 x4 x5 x6 x7
                (cmp_flags 0 1 (fun v => v)) Hl) as [fu Hfu]; try lia; [reflexivity|exact Hx0|].
    eexists. unfold mk.
    ystep. rewrite holds_cmp_LT by (unfold two63; lia). replace (len <? 16) with false by lia. cbv iota.
    ystep. ystep. ystep. ystep. rewrite holds_cmp_AE. change (64 mod two64) with 64. replace (64 <=? len) with true by lia. cbv iota.
    ystep. replace (if avx2 then 1 else 0) with 0 by (rewrite Hor; reflexivity). ystep. rewrite holds_cmp_NE. change (negb (0 =? 1)) with true. cbv iota.
    ystep. rewrite in64_true by (unfold two64; lia). cbv iota.
    ystep. exact Hfu.
  Unshelve. all: exact O.
Qed.

(* ---------- lengths from 64 with AVX2 ---------- *)

(* two adjacent 32-byte loads *)
Lemma chunk64 off : (off + 64 <= length s)%nat ->
  let d1 := firstn 32 (skipn off s) in let d2 := firstn 32 (skipn (off + 32) s) in
  load A s junk 32 (A + Z.of_nat off) = Some d1 /\ load A s junk 32 (A + Z.of_nat (off + 32)) = Some d2 /\
  length d1 = 32%nat /\ length d2 = 32%nat /\ map (ind f) d1 ++ map (ind f) d2 = firstn 64 (skipn off t).
Proof.
  intros H d1 d2.
  destruct (chunkT 32 off) as (A1 & B1 & C1); [lia|]. destruct (chunkT 32 (off + 32)) as (A2 & B2 & C2); [lia|].
  repeat split; try assumption. fold d1 in C1. fold d2 in C2. rewrite C1, C2.
  change 64%nat with (32 + 32)%nat. rewrite firstn_add. f_equal. rewrite skipn_skipn'. f_equal. f_equal. lia.
Qed.

Ltac avx2_chunk di off d1 d2 x2 x3 x4 x5 Hld1 Hld2 L1 L2 Hx2 Hx3 Hx4 Hx5 Lm1 Lm2 :=
  ystep; replace (0 + di + 0) with di by lia; rewrite Hld1; cbv iota; rewrite (vput_full 32 d1 x2 L1 Hx2);
  ystep; replace (32 + di + 0) with (A + Z.of_nat (off + 32)) by lia; rewrite Hld2; cbv iota; rewrite (vput_full 32 d2 x4 L2 Hx4);
  ystep; rewrite (cmp32 cc d1 x3 L1 Hx3);
  ystep; rewrite (cmp32 cc d2 x5 L2 Hx5);
  ystep; rewrite (vlow_full 32 _ Lm1);
  ystep; rewrite (vlow_full 32 _ Lm2).

(* after the loop: the last len mod 64 bytes, taken from the 64 bytes that end at the end of s *)
Lemma avx2_tail (k : nat) ax cx dx di r9 r10 r11 r12 r13 r14 r15 x0 x2 x3 x4 x5 x6 x7 fl0 :
  64 <= len -> r11 = A + len - 64 -> r13 = A + len -> di = A + 64 * Z.of_nat k -> 64 * Z.of_nat k <= len < 64 * Z.of_nat k + 64 ->
  r12 = cnt (firstn (64 * k) t) ->
  (length x2 <= 32)%nat -> (length x3 <= 32)%nat -> (length x4 <= 32)%nat -> (length x5 <= 32)%nat ->
  exists fuel, run fuel 246 (mk ax len cx dx A di slot r9 r10 r11 r12 r13 r14 r15 x0 (repeat cc 32) x2 x3 x4 x5 x6 x7 fl0 None) = Done (Some (cnt t)).
Proof.
  intros Hl Er11 Er13 Edi Hk Er12 Hx2 Hx3 Hx4 Hx5. pose proof len_nonneg as H0. unfold two63 in Hlen.
  assert (Hn : len = Z.of_nat (length s)) by reflexivity. pose proof t_length as Lt.
  pose proof (cnt_range t) as Rc. rewrite Lt in Rc.
  pose proof (cnt_range (firstn (64 * k) t)) as Rck. rewrite firstn_length, Lt in Rck.
  set (r := len mod 64). assert (Hr : r = len - 64 * Z.of_nat k) by (unfold r; lia).
  destruct (Z.eq_dec r 0) as [R0|Rn0].
  - eexists. unfold mk. ystep. ystep. rewrite holds_cmp_E. replace (di =? r13) with true by lia. cbv iota.
    ystep. ystep. replace (0 + slot + 0 =? slot) with true by lia. cbv iota.
    ystep. f_equal. f_equal. rewrite signed64_small' by (unfold two63; lia). rewrite Er12. f_equal.
    apply firstn_all2. lia.
  - set (r' := Z.to_nat r). set (off := (length s - 64)%nat). set (K := (64 * k)%nat).
    destruct (chunk64 off) as (Hld1 & Hld2 & L1 & L2 & Hm); [unfold off; lia|].
    replace (A + Z.of_nat off) with r11 in Hld1 by (unfold off; lia).
    set (d1 := firstn 32 (skipn off s)) in *. set (d2 := firstn 32 (skipn (off + 32) s)) in *.
    assert (Lm1 : length (map (ind f) d1) = 32%nat) by (rewrite map_length; exact L1).
    assert (Lm2 : length (map (ind f) d2) = 32%nat) by (rewrite map_length; exact L2).
    assert (Ls : length (skipn off t) = 64%nat) by (rewrite skipn_length, Lt; unfold off; lia).
    rewrite (firstn_all2 (n := 64) (skipn off t)) in Hm by lia.
    set (J := firstn (64 - r') (skipn off t)). set (T := skipn K t).
    assert (Esp : skipn off t = J ++ T).
    { unfold J, T. rewrite <- (firstn_skipn (64 - r') (skipn off t)) at 1. f_equal.
      rewrite skipn_skipn'. f_equal. unfold off, K, r'. lia. }
    assert (LJ : length J = (64 - r')%nat) by (unfold J; rewrite firstn_length, Ls; unfold r'; lia).
    assert (LT : length T = r') by (unfold T; rewrite skipn_length, Lt; unfold K, r'; lia).
    assert (Lz : (length (repeat 0%Z (length J) ++ T) <= 64)%nat) by (rewrite app_length, repeat_length, LJ, LT; lia).
    pose proof (cnt_range T) as RcT. rewrite LT in RcT.
    pose proof (movmsk_range (map (ind f) d2)) as Rm2. rewrite Lm2 in Rm2. change (2 ^ Z.of_nat 32) with 4294967296 in Rm2.
    eexists. unfold mk. ystep. ystep. rewrite holds_cmp_E. replace (di =? r13) with false by lia. cbv iota.
    ystep.
    avx2_chunk r11 off d1 d2 x2 x3 x4 x5 Hld1 Hld2 L1 L2 Hx2 Hx3 Hx4 Hx5 Lm1 Lm2.
    ystep. ystep. ystep. rewrite (lor_masks _ _ Lm1 Lm2), Hm, Esp.
    ystep. rewrite land63 by lia. fold r.
    ystep. ystep. change (64 mod two64) with 64. rewrite in64_true by (unfold two64; lia). cbv iota.
    ystep. ystep. rewrite (mask64 r) by lia.
    ystep. replace (2 ^ r) with (2 ^ Z.of_nat (length T)) by (rewrite LT; f_equal; unfold r'; lia).
    replace (2 ^ (64 - r)) with (2 ^ Z.of_nat (length J)) by (rewrite LJ; f_equal; unfold r'; lia).
    rewrite (land_high_mask J T).
    ystep. rewrite (popcnt_movmsk _ Lz), cnt_app, cnt_repeat0.
    ystep. rewrite in64_true by (unfold two64; unfold r' in RcT; lia). cbv iota.
    ystep. replace (0 + slot + 0 =? slot) with true by lia. cbv iota.
    ystep. f_equal. f_equal. rewrite signed64_small' by (unfold two63; unfold r' in RcT; lia).
    rewrite Er12. fold K. rewrite (cnt_split K t). fold T. lia.
  Unshelve. all: exact O.
Qed.

(* the loop (entered with at least one whole 64-byte block ahead): R12 counts the first 64k lanes of t *)
Lemma avx2_loop (m : nat) : forall (k : nat) ax cx dx di r9 r10 r11 r12 r13 r14 r15 x0 x2 x3 x4 x5 x6 x7 fl0,
  64 <= len -> r11 = A + len - 64 -> r13 = A + len -> di = A + 64 * Z.of_nat k -> 64 * Z.of_nat k + 64 <= len ->
  r12 = cnt (firstn (64 * k) t) -> len - 64 * Z.of_nat k - 128 < 64 * Z.of_nat m ->
  (length x2 <= 32)%nat -> (length x3 <= 32)%nat -> (length x4 <= 32)%nat -> (length x5 <= 32)%nat ->
  exists fuel, run fuel 233 (mk ax len cx dx A di slot r9 r10 r11 r12 r13 r14 r15 x0 (repeat cc 32) x2 x3 x4 x5 x6 x7 fl0 None) = Done (Some (cnt t)).
Proof.
  induction m as [|m IH]; intros k ax cx dx di r9 r10 r11 r12 r13 r14 r15 x0 x2 x3 x4 x5 x6 x7 fl0 Hl Er11 Er13 Edi Hk Er12 Hm Hx2 Hx3 Hx4 Hx5;
    pose proof len_nonneg as H0; unfold two63 in Hlen; assert (Hn : len = Z.of_nat (length s)) by reflexivity; pose proof t_length as Lt;
    (destruct (chunk64 (64 * k)) as (Hld1 & Hld2 & L1 & L2 & Hmm); [lia|]);
    replace (A + Z.of_nat (64 * k)) with di in Hld1 by lia;
    set (d1 := firstn 32 (skipn (64 * k) s)) in *; set (d2 := firstn 32 (skipn (64 * k + 32) s)) in *;
    assert (Lm1 : length (map (ind f) d1) = 32%nat) by (rewrite map_length; exact L1);
    assert (Lm2 : length (map (ind f) d2) = 32%nat) by (rewrite map_length; exact L2);
    assert (Lm164 : (length (map (ind f) d1) <= 64)%nat) by lia; assert (Lm264 : (length (map (ind f) d2) <= 64)%nat) by lia;
    pose proof (movmsk_range (map (ind f) d1)) as Rm1; rewrite Lm1 in Rm1; change (2 ^ Z.of_nat 32) with 4294967296 in Rm1;
    pose proof (movmsk_range (map (ind f) d2)) as Rm2; rewrite Lm2 in Rm2; change (2 ^ Z.of_nat 32) with 4294967296 in Rm2;
    pose proof (cnt_range (map (ind f) d1)) as Rc1; rewrite Lm1 in Rc1; pose proof (cnt_range (map (ind f) d2)) as Rc2; rewrite Lm2 in Rc2;
    pose proof (cnt_range (firstn (64 * k) t)) as Rck; rewrite firstn_length, Lt in Rck;
    assert (Enext : r12 + cnt (map (ind f) d1) + cnt (map (ind f) d2) = cnt (firstn (64 * S k) t))
      by (replace (64 * S k)%nat with (64 * k + 64)%nat by lia; rewrite firstn_add, cnt_app, <- Hmm, cnt_app, Er12; lia).
  - destruct (avx2_tail (S k) ax (cnt (map (ind f) d2)) (cnt (map (ind f) d1)) (di + 64) r9 r10 r11 (r12 + cnt (map (ind f) d1) + cnt (map (ind f) d2)) r13 r14 r15
                x0 d1 (map (ind f) d1) d2 (map (ind f) d2) x6 x7 (cmp_flags (di + 64) r11 signed64) Hl Er11 Er13) as [fu Hfu]; try lia.
    eexists. unfold mk.
    avx2_chunk di (64 * k)%nat d1 d2 x2 x3 x4 x5 Hld1 Hld2 L1 L2 Hx2 Hx3 Hx4 Hx5 Lm1 Lm2.
    ystep. unfold two32. rewrite (Z.mod_small (movmsk (map (ind f) d1))) by lia. rewrite (popcnt_movmsk _ Lm164).
    ystep. unfold two32. rewrite (Z.mod_small (movmsk (map (ind f) d2))) by lia. rewrite (popcnt_movmsk _ Lm264).
    ystep. rewrite in64_true by (unfold two64; lia). cbv iota.
    ystep. rewrite in64_true by (unfold two64; lia). cbv iota.
    ystep. change (64 mod two64) with 64. rewrite in64_true by (unfold two64; lia). cbv iota.
    ystep. ystep. rewrite holds_cmp_LE by (unfold two63; lia). replace (di + 64 <=? r11) with false by lia. cbv iota.
    unfold mk in Hfu. exact Hfu.
  - destruct (Z_le_gt_dec (di + 64) r11) as [Hle|Hgt].
    + destruct (IH (S k) ax (cnt (map (ind f) d2)) (cnt (map (ind f) d1)) (di + 64) r9 r10 r11 (r12 + cnt (map (ind f) d1) + cnt (map (ind f) d2)) r13 r14 r15
                  x0 d1 (map (ind f) d1) d2 (map (ind f) d2) x6 x7 (cmp_flags (di + 64) r11 signed64) Hl Er11 Er13) as [fu Hfu]; try lia.
      eexists. unfold mk.
      avx2_chunk di (64 * k)%nat d1 d2 x2 x3 x4 x5 Hld1 Hld2 L1 L2 Hx2 Hx3 Hx4 Hx5 Lm1 Lm2.
      ystep. unfold two32. rewrite (Z.mod_small (movmsk (map (ind f) d1))) by lia. rewrite (popcnt_movmsk _ Lm164).
      ystep. unfold two32. rewrite (Z.mod_small (movmsk (map (ind f) d2))) by lia. rewrite (popcnt_movmsk _ Lm264).
      ystep. rewrite in64_true by (unfold two64; lia). cbv iota.
      ystep. rewrite in64_true by (unfold two64; lia). cbv iota.
      ystep. change (64 mod two64) with 64. rewrite in64_true by (unfold two64; lia). cbv iota.
      ystep. ystep. rewrite holds_cmp_LE by (unfold two63; lia). replace (di + 64 <=? r11) with true by lia. cbv iota.
      unfold mk in Hfu. exact Hfu.
    + destruct (avx2_tail (S k) ax (cnt (map (ind f) d2)) (cnt (map (ind f) d1)) (di + 64) r9 r10 r11 (r12 + cnt (map (ind f) d1) + cnt (map (ind f) d2)) r13 r14 r15
                  x0 d1 (map (ind f) d1) d2 (map (ind f) d2) x6 x7 (cmp_flags (di + 64) r11 signed64) Hl Er11 Er13) as [fu Hfu]; try lia.
      eexists. unfold mk.
      avx2_chunk di (64 * k)%nat d1 d2 x2 x3 x4 x5 Hld1 Hld2 L1 L2 Hx2 Hx3 Hx4 Hx5 Lm1 Lm2.
      ystep. unfold two32. rewrite (Z.mod_small (movmsk (map (ind f) d1))) by lia. rewrite (popcnt_movmsk _ Lm164).
      ystep. unfold two32. rewrite (Z.mod_small (movmsk (map (ind f) d2))) by lia. rewrite (popcnt_movmsk _ Lm264).
      ystep. rewrite in64_true by (unfold two64; lia). cbv iota.
      ystep. rewrite in64_true by (unfold two64; lia). cbv iota.
      ystep. change (64 mod two64) with 64. rewrite in64_true by (unfold two64; lia). cbv iota.
      ystep. ystep. rewrite holds_cmp_LE by (unfold two63; lia). replace (di + 64 <=? r11) with false by lia. cbv iota.
      unfold mk in Hfu. exact Hfu.
  Unshelve. all: exact O.
Qed.

(* from the dispatch: lengths from 64 on a CPU with AVX2 *)
Lemma avx2_path ax cx dx di r9 r10 r11 r12 r13 r14 r15 x0 x1 x2 x3 x4 x5 x6 x7 :
  64 <= len -> avx2 = true -> (ax mod two32) mod 256 = cc ->
  (length x2 <= 32)%nat -> (length x3 <= 32)%nat -> (length x4 <= 32)%nat -> (length x5 <= 32)%nat ->
  exists fuel, run fuel 165 (mk ax len cx dx A di slot r9 r10 r11 r12 r13 r14 r15 x0 x1 x2 x3 x4 x5 x6 x7 (cmp_flags len 16 signed64) None)
               = Done (Some (cnt t)).
Proof.
  intros Hl Hav Hax Hx2 Hx3 Hx4 Hx5. pose proof len_nonneg as H0. unfold two63 in Hlen.
  destruct (avx2_loop (Z.to_nat len) 0 ax cx dx A r9 r10 (-64 + A + len * 1) (0 mod two64) (0 + A + len * 1) r14 r15
              (vput 16 (le_bytes4 (ax mod two32) ++ repeat 0 12) x0) x2 x3 x4 x5 x6 x7
              (cmp_flags 1 1 (fun v => v))) as [fu Hfu]; try lia; [reflexivity|].
  eexists. unfold mk.
  ystep. rewrite holds_cmp_LT by (unfold two63; lia). replace (len <? 16) with false by lia. cbv iota.
  ystep. ystep. ystep. ystep. rewrite holds_cmp_AE. change (64 mod two64) with 64. replace (64 <=? len) with true by lia. cbv iota.
  ystep. replace (if avx2 then 1 else 0) with 1 by (rewrite Hav; reflexivity).
  ystep. rewrite holds_cmp_NE. change (negb (1 =? 1)) with false. cbv iota.
  ystep. ystep. rewrite in64_true by (unfold two64; lia). cbv iota.
  ystep. rewrite in64_true by (unfold two64; lia). cbv iota.
  ystep. rewrite hd_movd, Hax.
  ystep. unfold mk in Hfu. exact Hfu.
  Unshelve. all: exact O.
Qed.

Lemma from_dispatch ax cx dx di r9 r10 r11 r12 r13 r14 r15 x0 x1 x2 x3 x4 x5 x6 x7 :
  (ax mod two32) mod 256 = cc -> vlow 16 x0 = repeat cc 16 ->
  (length x2 <= 32)%nat -> (length x3 <= 32)%nat -> (length x4 <= 32)%nat -> (length x5 <= 32)%nat ->
  exists fuel, run fuel 165 (mk ax len cx dx A di slot r9 r10 r11 r12 r13 r14 r15 x0 x1 x2 x3 x4 x5 x6 x7 (cmp_flags len 16 signed64) None)
               = Done (Some (cnt t)).
Proof.
  intros Hax Hx0 Hx2 Hx3 Hx4 Hx5.
  destruct (Z_lt_le_dec len 16) as [H16|H16]; [apply small_path; assumption|].
  destruct (Z_lt_le_dec len 64) as [H64|H64]; [apply sse_path; [exact H16|left; exact H64|exact Hx0]|].
  destruct (bool_dec avx2 true) as [Hav|Hav].
  - apply avx2_path; assumption.
  - apply sse_path; [exact H16|right; apply not_true_is_false; exact Hav|exact Hx0].
Qed.

(* the body, entered with the needle in AL *)
Theorem body_plain ax cx dx di r9 r10 r11 r12 r13 r14 r15 x0 x1 x2 x3 x4 x5 x6 x7 fl0 :
  (ax mod two32) mod 256 = cc -> (length x2 <= 32)%nat -> (length x3 <= 32)%nat -> (length x4 <= 32)%nat -> (length x5 <= 32)%nat ->
  exists fuel, run fuel 160 (mk ax len cx dx A di slot r9 r10 r11 r12 r13 r14 r15 x0 x1 x2 x3 x4 x5 x6 x7 fl0 None) = Done (Some (cnt t)).
Proof.
  intros Hax Hx2 Hx3 Hx4 Hx5.
  destruct (from_dispatch ax cx dx di r9 r10 r11 r12 r13 r14 r15 (bcast16 (ax mod two32) x0) x1 x2 x3 x4 x5 x6 x7 Hax) as [fu Hfu];
    [rewrite bcast16_low, Hax; reflexivity|assumption|assumption|assumption|assumption|].
  eexists. unfold mk. ystep. ystep. ystep. ystep. ystep. change (16 mod two64) with 16.
  unfold mk, bcast16 in Hfu. exact Hfu.
  Unshelve. all: exact O.
Qed.

Lemma cnt_t : cnt t = Z.of_nat (length (filter f s)).
Proof. apply cnt_map_ind. Qed.

End Plain.
(* ===================================================================== *)
(* the body for letters: a lane matches when (lane OR 0x20) = cc           *)
(* ===================================================================== *)
Section Case.
Variable cc : Z.
Notation f := (fun b => cc =? Z.lor 32 b).
Notation t := (map (ind f) s).

Lemma t_length_c : length t = length s.
Proof. apply map_length. Qed.

Lemma chunkT_c w off : (off + w <= length s)%nat ->
  let data := firstn w (skipn off s) in
  load A s junk w (A + Z.of_nat off) = Some data /\ length data = w /\ map (ind f) data = firstn w (skipn off t).
Proof.
  intros H data. split; [|split].
  - rewrite (load_bytes A s junk w) by (apply chunk_readable; unfold X86.len; lia).
    rewrite (bytes_at_inside A s junk) by (unfold X86.len; lia). unfold data. do 3 f_equal. lia.
  - unfold data. rewrite firstn_length, skipn_length. lia.
  - unfold data. rewrite skipn_map, firstn_map. reflexivity.
Qed.

(* ---------- lengths below 16 ---------- *)
Lemma small_path_c ax cx dx di r9 r10 r11 r12 r13 r14 r15 x0 x1 x2 x3 x4 x5 x6 x7 :
  len < 16 -> vlow 16 x0 = repeat cc 16 -> vlow 16 x2 = repeat 32 16 ->
  exists fuel, run fuel 45 (mk ax len cx dx A di slot r9 r10 r11 r12 r13 r14 r15 x0 x1 x2 x3 x4 x5 x6 x7 (cmp_flags len 16 signed64) None)
               = Done (Some (cnt t)).
Proof.
  intros Hl Hx0 Hx2m. pose proof len_nonneg as H0. unfold mk. unfold two63 in Hlen.
  destruct (Z.eq_dec len 0) as [E0|N0].
  { (* empty *)
    eexists. ystep. rewrite holds_cmp_LT by (unfold two63; lia). replace (len <? 16) with true by lia. cbv iota.
    ystep. ystep. cbn [holds zf logic_flags zflag]. rewrite Z.land_diag. replace (len =? 0) with true by lia. cbv iota.
    ystep. replace (0 + slot + 0 =? slot) with true by lia. cbv iota. ystep.
    rewrite (nil_of_len0 E0). reflexivity. }
  set (n := length s). assert (Hn : len = Z.of_nat n) by reflexivity.
  assert (Lt : length t = n) by apply t_length_c.
  pose proof (movmsk_range t) as Rs. rewrite Lt in Rs.
  assert (P16 : 2 ^ Z.of_nat n <= 2 ^ 15) by (apply Z.pow_le_mono_r; lia). change (2 ^ 15) with 32768 in P16.
  pose proof (cnt_range t) as Rc. rewrite Lt in Rc.
  assert (Pl : 1 <= 2 ^ len <= 32768) by (rewrite Hn; split; [change 1 with (2 ^ 0); apply Z.pow_le_mono_r; lia|exact P16]).
  destruct (Z_lt_le_dec ((16 + A + 0) mod 4096) 16) as [Pg|Pg].
  - (* the 16-byte load at s would cross into the next page: load the 16 bytes that END at the end of s *)
    assert (Hrd : forall k, (k < 16)%nat -> readable A s (-16 + A + len * 1 + Z.of_nat k) = true).
    { intros k Hk. destruct (Z_lt_le_dec (-16 + A + len * 1 + Z.of_nat k) A) as [Lo|Hi].
      - apply (readable_first_page A s junk); lia.
      - apply (readable_inside A s junk); lia. }
    set (J := bytes_at A s junk (A - Z.of_nat (16 - n)) (16 - n)).
    assert (Eb : bytes_at A s junk (-16 + A + len * 1) 16 = J ++ s).
    { replace (-16 + A + len * 1) with (A - Z.of_nat (16 - n)) by lia.
      pose proof (bytes_at_app A s junk (A - Z.of_nat (16 - n)) (16 - n) n) as B.
      replace ((16 - n) + n)%nat with 16%nat in B by lia. rewrite B.
      replace (A - Z.of_nat (16 - n) + Z.of_nat (16 - n)) with A by lia. unfold J. f_equal. apply bytes_at_whole. }
    assert (LJ : length (J ++ s) = 16%nat) by (rewrite app_length; unfold J; rewrite bytes_at_length; lia).
    set (tJ := map (ind f) J).
    assert (LJ0 : length tJ = (16 - n)%nat) by (unfold tJ; rewrite map_length; unfold J; apply bytes_at_length).
    assert (Lz : (length (repeat 0%Z (length tJ) ++ t) <= 64)%nat) by (rewrite app_length, repeat_length, LJ0, Lt; lia).
    assert (Rz : 0 <= movmsk (repeat 0 (length tJ) ++ t) < 65536).
    { pose proof (movmsk_range (repeat 0 (length tJ) ++ t)) as R. rewrite app_length, repeat_length in R.
      replace (Z.of_nat (length tJ + length t)) with 16 in R by lia. exact R. }
    eexists. ystep. rewrite holds_cmp_LT by (unfold two63; lia). replace (len <? 16) with true by lia. cbv iota.
    ystep. ystep. cbn [holds zf logic_flags zflag]. rewrite Z.land_diag. replace (len =? 0) with false by lia. cbv iota.
    ystep. rewrite in64_true by (unfold two64; lia). cbv iota.
    ystep. ystep. cbn [holds zf logic_flags zflag]. rewrite testw_page by lia. replace ((16 + A + 0) mod 4096 <? 16) with true by lia. cbv iota.
    ystep. ystep. change (16 mod two64) with 16. rewrite in64_true by (unfold two64; lia). cbv iota.
    ystep. ystep. ystep. rewrite (mask16 len) by lia.
    ystep. rewrite (load_bytes A s junk 16 _ Hrd), Eb. cbv iota.
    ystep. ystep. ystep. rewrite (cmp_or_low16 cc _ _ _ _ _ Hx0 Hx2m LJ), map_app. fold tJ.
    ystep. replace (2 ^ len) with (2 ^ Z.of_nat (length t)) by (rewrite Lt; f_equal; lia).
    replace (2 ^ (16 - len)) with (2 ^ Z.of_nat (length tJ)) by (rewrite LJ0; f_equal; lia).
    rewrite (land_high_mask tJ t).
    ystep. unfold two32. rewrite (Z.mod_small (movmsk (repeat 0 (length tJ) ++ t))) by lia.
    rewrite (popcnt_movmsk _ Lz), cnt_app, cnt_repeat0.
    ystep. replace (0 + slot + 0 =? slot) with true by lia. cbv iota.
    ystep. f_equal. f_equal. apply signed64_small'. unfold two63. lia.
  - (* load 16 bytes at s: s followed by 16 - len bytes of the same page *)
    assert (Hrd : forall k, (k < 16)%nat -> readable A s (0 + A + 0 + Z.of_nat k) = true).
    { intros k Hk. apply (readable_first_page A s junk); lia. }
    set (J := bytes_at A s junk (A + Z.of_nat n) (16 - n)).
    assert (Eb : bytes_at A s junk (0 + A + 0) 16 = s ++ J).
    { replace (0 + A + 0) with A by lia. replace 16%nat with (n + (16 - n))%nat by lia.
      rewrite bytes_at_app. unfold n at 1. rewrite bytes_at_whole. reflexivity. }
    assert (LJ : length (s ++ J) = 16%nat) by (rewrite app_length; unfold J; rewrite bytes_at_length; lia).
    set (tJ := map (ind f) J).
    assert (Lt64 : (length t <= 64)%nat) by lia.
    eexists. ystep. rewrite holds_cmp_LT by (unfold two63; lia). replace (len <? 16) with true by lia. cbv iota.
    ystep. ystep. cbn [holds zf logic_flags zflag]. rewrite Z.land_diag. replace (len =? 0) with false by lia. cbv iota.
    ystep. rewrite in64_true by (unfold two64; lia). cbv iota.
    ystep. ystep. cbn [holds zf logic_flags zflag]. rewrite testw_page by lia. replace ((16 + A + 0) mod 4096 <? 16) with false by lia. cbv iota.
    ystep. ystep. ystep.
    match goal with |- context [2 ^ (?e mod 64)] => replace (e mod 64) with (len mod 64) by lia end.
    ystep. rewrite (mask_low len) by lia. rewrite in64_true by (unfold two64; lia). cbv iota.
    ystep. rewrite (load_bytes A s junk 16 _ Hrd), Eb. cbv iota.
    ystep. ystep. ystep. rewrite (cmp_or_low16 cc _ _ _ _ _ Hx0 Hx2m LJ), map_app. fold tJ.
    ystep. replace (2 ^ len) with (2 ^ Z.of_nat (length t)) by (rewrite Lt; f_equal; lia). rewrite (land_low_mask t tJ).
    ystep. unfold two32. rewrite (Z.mod_small (movmsk t)) by lia. rewrite (popcnt_movmsk _ Lt64).
    ystep. replace (0 + slot + 0 =? slot) with true by lia. cbv iota.
    ystep. f_equal. f_equal. apply signed64_small'. unfold two63. lia.
  Unshelve. all: exact O.
Qed.

(* ---------- lengths from 16: the SSE loop ---------- *)

(* after the loop: the last len mod 16 bytes, taken from the 16 bytes that end at the end of s *)
Lemma sse_tail_c (k : nat) ax cx dx di r9 r10 r11 r12 r13 r14 r15 x0 x1 x2 x3 x4 x5 x6 x7 fl0 :
  16 <= len -> ax = A + len - 16 -> 16 * Z.of_nat k <= len < 16 * Z.of_nat k + 16 ->
  r12 = cnt (firstn (16 * k) t) -> vlow 16 x0 = repeat cc 16 -> vlow 16 x2 = repeat 32 16 ->
  exists fuel, run fuel 62 (mk ax len cx dx A di slot r9 r10 r11 r12 r13 r14 r15 x0 x1 x2 x3 x4 x5 x6 x7 fl0 None) = Done (Some (cnt t)).
Proof.
  intros Hl Eax Hk Er12 Hx0 Hx2m. pose proof len_nonneg as H0. unfold two63 in Hlen.
  assert (Hn : len = Z.of_nat (length s)) by reflexivity. pose proof t_length_c as Lt.
  pose proof (cnt_range t) as Rc. rewrite Lt in Rc.
  pose proof (cnt_range (firstn (16 * k) t)) as Rck. rewrite firstn_length, Lt in Rck.
  set (r := len mod 16). assert (Hr : r = len - 16 * Z.of_nat k) by (unfold r; lia).
  destruct (Z.eq_dec r 0) as [R0|Rn0].
  - eexists. unfold mk. ystep. rewrite land15 by lia. fold r.
    ystep. cbn [holds zf logic_flags zflag]. replace (r =? 0) with true by lia. cbv iota.
    ystep. replace (0 + slot + 0 =? slot) with true by lia. cbv iota.
    ystep. f_equal. f_equal. rewrite signed64_small' by (unfold two63; lia). rewrite Er12. f_equal.
    apply firstn_all2. lia.
  - set (r' := Z.to_nat r). set (off := (length s - 16)%nat). set (K := (16 * k)%nat).
    destruct (chunkT_c 16 off) as (Hld & Hlc & Hm); [unfold off; lia|].
    replace (A + Z.of_nat off) with ax in Hld by (unfold off; lia).
    set (data := firstn 16 (skipn off s)) in *.
    assert (Ls : length (skipn off t) = 16%nat) by (rewrite skipn_length, Lt; unfold off; lia).
    rewrite (firstn_all2 (n := 16) (skipn off t)) in Hm by lia.
    set (J := firstn (16 - r') (skipn off t)). set (T := skipn K t).
    assert (Esp : skipn off t = J ++ T).
    { unfold J, T. rewrite <- (firstn_skipn (16 - r') (skipn off t)) at 1. f_equal.
      rewrite skipn_skipn'. f_equal. unfold off, K, r'. lia. }
    assert (LJ : length J = (16 - r')%nat) by (unfold J; rewrite firstn_length, Ls; unfold r'; lia).
    assert (LT : length T = r') by (unfold T; rewrite skipn_length, Lt; unfold K, r'; lia).
    assert (Lz : (length (repeat 0%Z (length J) ++ T) <= 64)%nat) by (rewrite app_length, repeat_length, LJ, LT; lia).
    assert (Rz : 0 <= movmsk (repeat 0 (length J) ++ T) < 65536).
    { pose proof (movmsk_range (repeat 0 (length J) ++ T)) as R. rewrite app_length, repeat_length in R.
      replace (Z.of_nat (length J + length T)) with 16 in R by (rewrite LJ, LT; unfold r'; lia). exact R. }
    pose proof (cnt_range T) as RcT. rewrite LT in RcT.
    eexists. unfold mk. ystep. rewrite land15 by lia. fold r.
    ystep. cbn [holds zf logic_flags zflag]. replace (r =? 0) with false by lia. cbv iota.
    ystep. ystep. change (16 mod two64) with 16. rewrite in64_true by (unfold two64; lia). cbv iota.
    ystep. ystep. ystep. rewrite (mask16 r) by lia.
    ystep. replace (0 + ax + 0) with ax by lia. rewrite Hld. cbv iota.
    ystep. ystep. ystep. rewrite (cmp_or_low16 cc _ _ _ _ _ Hx0 Hx2m Hlc), Hm, Esp.
    ystep. replace (2 ^ r) with (2 ^ Z.of_nat (length T)) by (rewrite LT; f_equal; unfold r'; lia).
    replace (2 ^ (16 - r)) with (2 ^ Z.of_nat (length J)) by (rewrite LJ; f_equal; unfold r'; lia).
    rewrite (land_high_mask J T).
    ystep. unfold two32. rewrite (Z.mod_small (movmsk (repeat 0 (length J) ++ T))) by lia.
    rewrite (popcnt_movmsk _ Lz), cnt_app, cnt_repeat0.
    ystep. rewrite in64_true by (unfold two64; unfold r' in RcT; lia). cbv iota.
    ystep. replace (0 + slot + 0 =? slot) with true by lia. cbv iota.
    ystep. f_equal. f_equal. rewrite signed64_small' by (unfold two63; unfold r' in RcT; lia).
    rewrite Er12. fold K. rewrite (cnt_split K t). fold T. lia.
  Unshelve. all: exact O.
Qed.

(* the loop: invariant "R12 counts the first 16k lanes of t", measure = whole chunks left *)
Lemma sse_loop_c (m : nat) : forall (k : nat) ax cx dx di r9 r10 r11 r12 r13 r14 r15 x0 x1 x2 x3 x4 x5 x6 x7 fl0,
  16 <= len -> ax = A + len - 16 -> di = A + 16 * Z.of_nat k -> 16 * Z.of_nat k <= len ->
  r12 = cnt (firstn (16 * k) t) -> len - 16 * Z.of_nat k < 16 * Z.of_nat m + 16 -> vlow 16 x0 = repeat cc 16 -> vlow 16 x2 = repeat 32 16 ->
  exists fuel, run fuel 60 (mk ax len cx dx A di slot r9 r10 r11 r12 r13 r14 r15 x0 x1 x2 x3 x4 x5 x6 x7 fl0 None) = Done (Some (cnt t)).
Proof.
  induction m as [|m IH]; intros k ax cx dx di r9 r10 r11 r12 r13 r14 r15 x0 x1 x2 x3 x4 x5 x6 x7 fl0 Hl Eax Edi Hk Er12 Hm Hx0 Hx2m;
    pose proof len_nonneg as H0; unfold two63 in Hlen; assert (Hn : len = Z.of_nat (length s)) by reflexivity; pose proof t_length_c as Lt.
  - destruct (sse_tail_c k ax cx dx di r9 r10 r11 r12 r13 r14 r15 x0 x1 x2 x3 x4 x5 x6 x7 (cmp_flags di ax signed64) Hl Eax) as [fu Hfu]; [lia|exact Er12|exact Hx0|exact Hx2m|].
    eexists. unfold mk. ystep. ystep. rewrite holds_cmp_BE. replace (di <=? ax) with false by lia. cbv iota.
    exact Hfu.
  - destruct (Z_le_gt_dec di ax) as [Hle|Hgt].
    + destruct (chunkT_c 16 (16 * k)) as (Hld & Hlc & Hmm); [lia|].
      replace (A + Z.of_nat (16 * k)) with di in Hld by lia.
      set (data := firstn 16 (skipn (16 * k) s)) in *.
      assert (Lm : length (map (ind f) data) = 16%nat) by (rewrite map_length; exact Hlc).
      assert (Lm64 : (length (map (ind f) data) <= 64)%nat) by lia.
      pose proof (movmsk_range (map (ind f) data)) as Rm. rewrite Lm in Rm. change (2 ^ Z.of_nat 16) with 65536 in Rm.
      pose proof (cnt_range (map (ind f) data)) as Rcd. rewrite Lm in Rcd.
      pose proof (cnt_range (firstn (16 * k) t)) as Rck. rewrite firstn_length, Lt in Rck.
      assert (Enext : r12 + cnt (map (ind f) data) = cnt (firstn (16 * S k) t)).
      { replace (16 * S k)%nat with (16 * k + 16)%nat by lia. rewrite firstn_add, cnt_app, <- Hmm, Er12. reflexivity. }
      destruct (IH (S k) ax cx (cnt (map (ind f) data)) (di + 16) r9 r10 r11 (r12 + cnt (map (ind f) data)) r13 r14 r15 x0
                  (vput 16 (map2 (fun x y => if x =? y then 255 else 0) x0 (vput 16 (map2 Z.lor x2 (vput 16 data x1)) (vput 16 data x1))) (vput 16 (map2 Z.lor x2 (vput 16 data x1)) (vput 16 data x1))) x2 x3 x4 x5 x6 x7
                  noflags Hl Eax) as [fu Hfu]; try lia; [exact Hx0|exact Hx2m|].
      eexists. unfold mk. ystep. ystep. rewrite holds_cmp_BE. replace (di <=? ax) with true by lia. cbv iota.
      ystep. replace (0 + di + 0) with di by lia. rewrite Hld. cbv iota.
      ystep. ystep. ystep. rewrite (cmp_or_low16 cc _ _ _ _ _ Hx0 Hx2m Hlc).
      ystep. unfold two32. rewrite (Z.mod_small (movmsk (map (ind f) data))) by lia. rewrite (popcnt_movmsk _ Lm64).
      ystep. rewrite in64_true by (unfold two64; lia). cbv iota.
      ystep. change (16 mod two64) with 16. rewrite in64_true by (unfold two64; lia). cbv iota.
      unfold mk in Hfu. exact Hfu.
    + destruct (sse_tail_c k ax cx dx di r9 r10 r11 r12 r13 r14 r15 x0 x1 x2 x3 x4 x5 x6 x7 (cmp_flags di ax signed64) Hl Eax) as [fu Hfu]; [lia|exact Er12|exact Hx0|exact Hx2m|].
      eexists. unfold mk. ystep. ystep. rewrite holds_cmp_BE. replace (di <=? ax) with false by lia. cbv iota.
      exact Hfu.
  Unshelve. all: exact O.
Qed.

(* from the dispatch: lengths 16..64, and every length from 16 when the CPU has no AVX2 *)
Lemma sse_path_c ax cx dx di r9 r10 r11 r12 r13 r14 r15 x0 x1 x2 x3 x4 x5 x6 x7 :
  16 <= len -> (len <= 64 \/ avx2 = false) -> vlow 16 x0 = repeat cc 16 -> vlow 16 x2 = repeat 32 16 ->
  exists fuel, run fuel 45 (mk ax len cx dx A di slot r9 r10 r11 r12 r13 r14 r15 x0 x1 x2 x3 x4 x5 x6 x7 (cmp_flags len 16 signed64) None)
               = Done (Some (cnt t)).
Proof.
  intros Hl Hor Hx0 Hx2m. pose proof len_nonneg as H0. unfold two63 in Hlen.
  destruct (Z_le_gt_dec len 64) as [H64|H64].
  - destruct (sse_loop_c (Z.to_nat len) 0 (-16 + A + len * 1) cx dx A r9 r10 r11 (0 mod two64) r13 r14 r15 x0 x1 x2 x3 x4 x5 x6 x7
                (cmp_flags len (64 mod two64) signed64) Hl) as [fu Hfu]; try lia; [reflexivity|exact Hx0|exact Hx2m|].
    eexists. unfold mk.
    ystep. rewrite holds_cmp_LT by (unfold two63; lia). replace (len <? 16) with false by lia. cbv iota.
    ystep. ystep. ystep. ystep. rewrite holds_cmp_A. change (64 mod two64) with 64. replace (64 <? len) with false by lia. cbv iota.
    ystep. rewrite in64_true by (unfold two64; lia). cbv iota.
    ystep. exact Hfu.
  - destruct Hor as [Hor|Hor]; [lia|].
    destruct (sse_loop_c (Z.to_nat len) 0 (-16 + A + len * 1) cx dx A r9 r10 r11 (0 mod two64) r13 r14 r15 x0 x1 x2 x3 x4 x5 x6 x7
                (cmp_flags 0 1 (fun v => v)) Hl) as [fu Hfu]; try lia; [reflexivity|exact Hx0|exact Hx2m|].
    eexists. unfold mk.
    ystep. rewrite holds_cmp_LT by (unfold two63; lia). replace (len <? 16) with false by lia. cbv iota.
    ystep. ystep. ystep. ystep. rewrite holds_cmp_A. change (64 mod two64) with 64. replace (64 <? len) with true by lia. cbv iota.
    ystep. replace (if avx2 then 1 else 0) with 0 by (rewrite Hor; reflexivity). ystep. rewrite holds_cmp_NE. change (negb (0 =? 1)) with true. cbv iota.
    ystep. rewrite in64_true by (unfold two64; lia). cbv iota.
    ystep. exact Hfu.
  Unshelve. all: exact O.
Qed.

(* ---------- lengths from 64 with AVX2 ---------- *)

(* two adjacent 32-byte loads *)
Lemma chunk64_c off : (off + 64 <= length s)%nat ->
  let d1 := firstn 32 (skipn off s) in let d2 := firstn 32 (skipn (off + 32) s) in
  load A s junk 32 (A + Z.of_nat off) = Some d1 /\ load A s junk 32 (A + Z.of_nat (off + 32)) = Some d2 /\
  length d1 = 32%nat /\ length d2 = 32%nat /\ map (ind f) d1 ++ map (ind f) d2 = firstn 64 (skipn off t).
Proof.
  intros H d1 d2.
  destruct (chunkT_c 32 off) as (A1 & B1 & C1); [lia|]. destruct (chunkT_c 32 (off + 32)) as (A2 & B2 & C2); [lia|].
  repeat split; try assumption. fold d1 in C1. fold d2 in C2. rewrite C1, C2.
  change 64%nat with (32 + 32)%nat. rewrite firstn_add. f_equal. rewrite skipn_skipn'. f_equal. f_equal. lia.
Qed.

Ltac avx2_chunk_c di off d1 d2 x2 x3 x4 x5 Hld1 Hld2 L1 L2 Hx2 Hx3 Hx4 Hx5 Lm1 Lm2 :=
  ystep; replace (0 + di + 0) with di by lia; rewrite Hld1; cbv iota; rewrite (vput_full 32 d1 x2 L1 Hx2);
  ystep; replace (32 + di + 0) with (A + Z.of_nat (off + 32)) by lia; rewrite Hld2; cbv iota; rewrite (vput_full 32 d2 x4 L2 Hx4);
  ystep; rewrite (or32 d1 d1 L1) by lia;
  ystep; rewrite (or32 d2 d2 L2) by lia;
  ystep; rewrite (cmp_or32 cc d1 x3 L1 Hx3);
  ystep; rewrite (cmp_or32 cc d2 x5 L2 Hx5);
  ystep; rewrite (vlow_full 32 _ Lm1);
  ystep; rewrite (vlow_full 32 _ Lm2).

(* after the loop: the last len mod 64 bytes, taken from the 64 bytes that end at the end of s *)
Lemma avx2_tail_c (k : nat) ax cx dx di r9 r10 r11 r12 r13 r14 r15 x0 x2 x3 x4 x5 x7 fl0 :
  64 <= len -> r11 = A + len - 64 -> r13 = A + len -> di = A + 64 * Z.of_nat k -> 64 * Z.of_nat k <= len < 64 * Z.of_nat k + 64 ->
  r12 = cnt (firstn (64 * k) t) ->
  (length x2 <= 32)%nat -> (length x3 <= 32)%nat -> (length x4 <= 32)%nat -> (length x5 <= 32)%nat ->
  exists fuel, run fuel 133 (mk ax len cx dx A di slot r9 r10 r11 r12 r13 r14 r15 x0 (repeat cc 32) x2 x3 x4 x5 (repeat 32 32) x7 fl0 None) = Done (Some (cnt t)).
Proof.
  intros Hl Er11 Er13 Edi Hk Er12 Hx2 Hx3 Hx4 Hx5. pose proof len_nonneg as H0. unfold two63 in Hlen.
  assert (Hn : len = Z.of_nat (length s)) by reflexivity. pose proof t_length_c as Lt.
  pose proof (cnt_range t) as Rc. rewrite Lt in Rc.
  pose proof (cnt_range (firstn (64 * k) t)) as Rck. rewrite firstn_length, Lt in Rck.
  set (r := len mod 64). assert (Hr : r = len - 64 * Z.of_nat k) by (unfold r; lia).
  destruct (Z.eq_dec r 0) as [R0|Rn0].
  - eexists. unfold mk. ystep. ystep. rewrite holds_cmp_E. replace (di =? r13) with true by lia. cbv iota.
    ystep. ystep. replace (0 + slot + 0 =? slot) with true by lia. cbv iota.
    ystep. f_equal. f_equal. rewrite signed64_small' by (unfold two63; lia). rewrite Er12. f_equal.
    apply firstn_all2. lia.
  - set (r' := Z.to_nat r). set (off := (length s - 64)%nat). set (K := (64 * k)%nat).
    destruct (chunk64_c off) as (Hld1 & Hld2 & L1 & L2 & Hm); [unfold off; lia|].
    replace (A + Z.of_nat off) with r11 in Hld1 by (unfold off; lia).
    set (d1 := firstn 32 (skipn off s)) in *. set (d2 := firstn 32 (skipn (off + 32) s)) in *.
    assert (Lm1 : length (map (ind f) d1) = 32%nat) by (rewrite map_length; exact L1).
    assert (Lm2 : length (map (ind f) d2) = 32%nat) by (rewrite map_length; exact L2).
    assert (Ls : length (skipn off t) = 64%nat) by (rewrite skipn_length, Lt; unfold off; lia).
    rewrite (firstn_all2 (n := 64) (skipn off t)) in Hm by lia.
    set (J := firstn (64 - r') (skipn off t)). set (T := skipn K t).
    assert (Esp : skipn off t = J ++ T).
    { unfold J, T. rewrite <- (firstn_skipn (64 - r') (skipn off t)) at 1. f_equal.
      rewrite skipn_skipn'. f_equal. unfold off, K, r'. lia. }
    assert (LJ : length J = (64 - r')%nat) by (unfold J; rewrite firstn_length, Ls; unfold r'; lia).
    assert (LT : length T = r') by (unfold T; rewrite skipn_length, Lt; unfold K, r'; lia).
    assert (Lz : (length (repeat 0%Z (length J) ++ T) <= 64)%nat) by (rewrite app_length, repeat_length, LJ, LT; lia).
    pose proof (cnt_range T) as RcT. rewrite LT in RcT.
    pose proof (movmsk_range (map (ind f) d2)) as Rm2. rewrite Lm2 in Rm2. change (2 ^ Z.of_nat 32) with 4294967296 in Rm2.
    eexists. unfold mk. ystep. ystep. rewrite holds_cmp_E. replace (di =? r13) with false by lia. cbv iota.
    ystep.
    avx2_chunk_c r11 off d1 d2 x2 x3 x4 x5 Hld1 Hld2 L1 L2 Hx2 Hx3 Hx4 Hx5 Lm1 Lm2.
    ystep. ystep. ystep. rewrite (lor_masks _ _ Lm1 Lm2), Hm, Esp.
    ystep. rewrite land63 by lia. fold r.
    ystep. ystep. change (64 mod two64) with 64. rewrite in64_true by (unfold two64; lia). cbv iota.
    ystep. ystep. rewrite (mask64 r) by lia.
    ystep. replace (2 ^ r) with (2 ^ Z.of_nat (length T)) by (rewrite LT; f_equal; unfold r'; lia).
    replace (2 ^ (64 - r)) with (2 ^ Z.of_nat (length J)) by (rewrite LJ; f_equal; unfold r'; lia).
    rewrite (land_high_mask J T).
    ystep. rewrite (popcnt_movmsk _ Lz), cnt_app, cnt_repeat0.
    ystep. rewrite in64_true by (unfold two64; unfold r' in RcT; lia). cbv iota.
    ystep. replace (0 + slot + 0 =? slot) with true by lia. cbv iota.
    ystep. f_equal. f_equal. rewrite signed64_small' by (unfold two63; unfold r' in RcT; lia).
    rewrite Er12. fold K. rewrite (cnt_split K t). fold T. lia.
  Unshelve. all: exact O.
Qed.

(* the loop (entered with at least one whole 64-byte block ahead): R12 counts the first 64k lanes of t *)
Lemma avx2_loop_c (m : nat) : forall (k : nat) ax cx dx di r9 r10 r11 r12 r13 r14 r15 x0 x2 x3 x4 x5 x7 fl0,
  64 <= len -> r11 = A + len - 64 -> r13 = A + len -> di = A + 64 * Z.of_nat k -> 64 * Z.of_nat k + 64 <= len ->
  r12 = cnt (firstn (64 * k) t) -> len - 64 * Z.of_nat k - 128 < 64 * Z.of_nat m ->
  (length x2 <= 32)%nat -> (length x3 <= 32)%nat -> (length x4 <= 32)%nat -> (length x5 <= 32)%nat ->
  exists fuel, run fuel 118 (mk ax len cx dx A di slot r9 r10 r11 r12 r13 r14 r15 x0 (repeat cc 32) x2 x3 x4 x5 (repeat 32 32) x7 fl0 None) = Done (Some (cnt t)).
Proof.
  induction m as [|m IH]; intros k ax cx dx di r9 r10 r11 r12 r13 r14 r15 x0 x2 x3 x4 x5 x7 fl0 Hl Er11 Er13 Edi Hk Er12 Hm Hx2 Hx3 Hx4 Hx5;
    pose proof len_nonneg as H0; unfold two63 in Hlen; assert (Hn : len = Z.of_nat (length s)) by reflexivity; pose proof t_length_c as Lt;
    (destruct (chunk64_c (64 * k)) as (Hld1 & Hld2 & L1 & L2 & Hmm); [lia|]);
    replace (A + Z.of_nat (64 * k)) with di in Hld1 by lia;
    set (d1 := firstn 32 (skipn (64 * k) s)) in *; set (d2 := firstn 32 (skipn (64 * k + 32) s)) in *;
    assert (Lm1 : length (map (ind f) d1) = 32%nat) by (rewrite map_length; exact L1);
    assert (Lm2 : length (map (ind f) d2) = 32%nat) by (rewrite map_length; exact L2);
    assert (Lm164 : (length (map (ind f) d1) <= 64)%nat) by lia; assert (Lm264 : (length (map (ind f) d2) <= 64)%nat) by lia;
    pose proof (movmsk_range (map (ind f) d1)) as Rm1; rewrite Lm1 in Rm1; change (2 ^ Z.of_nat 32) with 4294967296 in Rm1;
    pose proof (movmsk_range (map (ind f) d2)) as Rm2; rewrite Lm2 in Rm2; change (2 ^ Z.of_nat 32) with 4294967296 in Rm2;
    pose proof (cnt_range (map (ind f) d1)) as Rc1; rewrite Lm1 in Rc1; pose proof (cnt_range (map (ind f) d2)) as Rc2; rewrite Lm2 in Rc2;
    pose proof (cnt_range (firstn (64 * k) t)) as Rck; rewrite firstn_length, Lt in Rck;
    assert (Enext : r12 + cnt (map (ind f) d1) + cnt (map (ind f) d2) = cnt (firstn (64 * S k) t))
      by (replace (64 * S k)%nat with (64 * k + 64)%nat by lia; rewrite firstn_add, cnt_app, <- Hmm, cnt_app, Er12; lia).
  - destruct (avx2_tail_c (S k) ax (cnt (map (ind f) d2)) (cnt (map (ind f) d1)) (di + 64) r9 r10 r11 (r12 + cnt (map (ind f) d1) + cnt (map (ind f) d2)) r13 r14 r15
                x0 (map (Z.lor 32) d1) (map (ind f) d1) (map (Z.lor 32) d2) (map (ind f) d2) x7 (cmp_flags (di + 64) r11 signed64) Hl Er11 Er13) as [fu Hfu]; try lia; try (rewrite map_length; lia).
    eexists. unfold mk.
    avx2_chunk_c di (64 * k)%nat d1 d2 x2 x3 x4 x5 Hld1 Hld2 L1 L2 Hx2 Hx3 Hx4 Hx5 Lm1 Lm2.
    ystep. unfold two32. rewrite (Z.mod_small (movmsk (map (ind f) d1))) by lia. rewrite (popcnt_movmsk _ Lm164).
    ystep. unfold two32. rewrite (Z.mod_small (movmsk (map (ind f) d2))) by lia. rewrite (popcnt_movmsk _ Lm264).
    ystep. rewrite in64_true by (unfold two64; lia). cbv iota.
    ystep. rewrite in64_true by (unfold two64; lia). cbv iota.
    ystep. change (64 mod two64) with 64. rewrite in64_true by (unfold two64; lia). cbv iota.
    ystep. ystep. rewrite holds_cmp_LE by (unfold two63; lia). replace (di + 64 <=? r11) with false by lia. cbv iota.
    unfold mk in Hfu. exact Hfu.
  - destruct (Z_le_gt_dec (di + 64) r11) as [Hle|Hgt].
    + destruct (IH (S k) ax (cnt (map (ind f) d2)) (cnt (map (ind f) d1)) (di + 64) r9 r10 r11 (r12 + cnt (map (ind f) d1) + cnt (map (ind f) d2)) r13 r14 r15
                  x0 (map (Z.lor 32) d1) (map (ind f) d1) (map (Z.lor 32) d2) (map (ind f) d2) x7 (cmp_flags (di + 64) r11 signed64) Hl Er11 Er13) as [fu Hfu]; try lia; try (rewrite map_length; lia).
      eexists. unfold mk.
      avx2_chunk_c di (64 * k)%nat d1 d2 x2 x3 x4 x5 Hld1 Hld2 L1 L2 Hx2 Hx3 Hx4 Hx5 Lm1 Lm2.
      ystep. unfold two32. rewrite (Z.mod_small (movmsk (map (ind f) d1))) by lia. rewrite (popcnt_movmsk _ Lm164).
      ystep. unfold two32. rewrite (Z.mod_small (movmsk (map (ind f) d2))) by lia. rewrite (popcnt_movmsk _ Lm264).
      ystep. rewrite in64_true by (unfold two64; lia). cbv iota.
      ystep. rewrite in64_true by (unfold two64; lia). cbv iota.
      ystep. change (64 mod two64) with 64. rewrite in64_true by (unfold two64; lia). cbv iota.
      ystep. ystep. rewrite holds_cmp_LE by (unfold two63; lia). replace (di + 64 <=? r11) with true by lia. cbv iota.
      unfold mk in Hfu. exact Hfu.
    + destruct (avx2_tail_c (S k) ax (cnt (map (ind f) d2)) (cnt (map (ind f) d1)) (di + 64) r9 r10 r11 (r12 + cnt (map (ind f) d1) + cnt (map (ind f) d2)) r13 r14 r15
                  x0 (map (Z.lor 32) d1) (map (ind f) d1) (map (Z.lor 32) d2) (map (ind f) d2) x7 (cmp_flags (di + 64) r11 signed64) Hl Er11 Er13) as [fu Hfu]; try lia; try (rewrite map_length; lia).
      eexists. unfold mk.
      avx2_chunk_c di (64 * k)%nat d1 d2 x2 x3 x4 x5 Hld1 Hld2 L1 L2 Hx2 Hx3 Hx4 Hx5 Lm1 Lm2.
      ystep. unfold two32. rewrite (Z.mod_small (movmsk (map (ind f) d1))) by lia. rewrite (popcnt_movmsk _ Lm164).
      ystep. unfold two32. rewrite (Z.mod_small (movmsk (map (ind f) d2))) by lia. rewrite (popcnt_movmsk _ Lm264).
      ystep. rewrite in64_true by (unfold two64; lia). cbv iota.
      ystep. rewrite in64_true by (unfold two64; lia). cbv iota.
      ystep. change (64 mod two64) with 64. rewrite in64_true by (unfold two64; lia). cbv iota.
      ystep. ystep. rewrite holds_cmp_LE by (unfold two63; lia). replace (di + 64 <=? r11) with false by lia. cbv iota.
      unfold mk in Hfu. exact Hfu.
  Unshelve. all: exact O.
Qed.


(* from the dispatch: lengths above 64 on a CPU with AVX2 *)
Lemma avx2_path_c ax cx dx di r9 r10 r11 r12 r13 r14 r15 x0 x1 x2 x3 x4 x5 x6 x7 :
  64 < len -> avx2 = true -> (ax mod two32) mod 256 = cc -> vlow 16 x2 = repeat 32 16 ->
  (length x2 <= 32)%nat -> (length x3 <= 32)%nat -> (length x4 <= 32)%nat -> (length x5 <= 32)%nat ->
  exists fuel, run fuel 45 (mk ax len cx dx A di slot r9 r10 r11 r12 r13 r14 r15 x0 x1 x2 x3 x4 x5 x6 x7 (cmp_flags len 16 signed64) None)
               = Done (Some (cnt t)).
Proof.
  intros Hl Hav Hax Hx2m Hx2 Hx3 Hx4 Hx5. pose proof len_nonneg as H0. unfold two63 in Hlen.
  destruct (avx2_loop_c (Z.to_nat len) 0 ax cx dx A r9 r10 (-64 + A + len * 1) (0 mod two64) (0 + A + len * 1) r14 r15
              (vput 16 (le_bytes4 (ax mod two32) ++ repeat 0 12) x0) x2 x3 x4 x5 x7
              (cmp_flags 1 1 (fun v => v))) as [fu Hfu]; try lia; [reflexivity|].
  eexists. unfold mk.
  ystep. rewrite holds_cmp_LT by (unfold two63; lia). replace (len <? 16) with false by lia. cbv iota.
  ystep. ystep. ystep. ystep. rewrite holds_cmp_A. change (64 mod two64) with 64. replace (64 <? len) with true by lia. cbv iota.
  ystep. replace (if avx2 then 1 else 0) with 1 by (rewrite Hav; reflexivity).
  ystep. rewrite holds_cmp_NE. change (negb (1 =? 1)) with false. cbv iota.
  ystep. rewrite (hd_vlow16 x2 32 Hx2m).
  ystep. ystep. rewrite in64_true by (unfold two64; lia). cbv iota.
  ystep. rewrite in64_true by (unfold two64; lia). cbv iota.
  ystep. rewrite hd_movd, Hax.
  ystep. unfold mk in Hfu. exact Hfu.
  Unshelve. all: exact O.
Qed.

Lemma from_dispatch_c ax cx dx di r9 r10 r11 r12 r13 r14 r15 x0 x1 x2 x3 x4 x5 x6 x7 :
  (ax mod two32) mod 256 = cc -> vlow 16 x0 = repeat cc 16 -> vlow 16 x2 = repeat 32 16 ->
  (length x2 <= 32)%nat -> (length x3 <= 32)%nat -> (length x4 <= 32)%nat -> (length x5 <= 32)%nat ->
  exists fuel, run fuel 45 (mk ax len cx dx A di slot r9 r10 r11 r12 r13 r14 r15 x0 x1 x2 x3 x4 x5 x6 x7 (cmp_flags len 16 signed64) None)
               = Done (Some (cnt t)).
Proof.
  intros Hax Hx0 Hx2m Hx2 Hx3 Hx4 Hx5.
  destruct (Z_lt_le_dec len 16) as [H16|H16]; [apply small_path_c; assumption|].
  destruct (Z_le_gt_dec len 64) as [H64|H64]; [apply sse_path_c; [exact H16|left; exact H64|exact Hx0|exact Hx2m]|].
  destruct (bool_dec avx2 true) as [Hav|Hav].
  - apply avx2_path_c; try assumption. lia.
  - apply sse_path_c; [exact H16|right; apply not_true_is_false; exact Hav|exact Hx0|exact Hx2m].
Qed.

(* the body, entered with the needle (a letter, either case) in AL *)
Theorem body_case ax cx dx di r9 r10 r11 r12 r13 r14 r15 x0 x1 x2 x3 x4 x5 x6 x7 fl0 :
  Z.lor (ax mod 256) 32 = cc -> (length x2 <= 32)%nat -> (length x3 <= 32)%nat -> (length x4 <= 32)%nat -> (length x5 <= 32)%nat ->
  exists fuel, run fuel 34 (mk ax len cx dx A di slot r9 r10 r11 r12 r13 r14 r15 x0 x1 x2 x3 x4 x5 x6 x7 fl0 None) = Done (Some (cnt t)).
Proof.
  intros Hax Hx2 Hx3 Hx4 Hx5.
  set (ax1 := Z.lor ax (32 mod two64) mod two32).
  assert (Hax1 : (ax1 mod two32) mod 256 = cc).
  { unfold ax1. rewrite <- Hax. pose proof (lor_low8 ax 32) as E. change (32 mod 256) with 32 in E. rewrite <- E.
    change (32 mod two64) with 32. generalize (Z.lor ax 32). intros v. unfold two32. lia. }
  destruct (from_dispatch_c ax1 (32 mod two64) dx di r9 r10 r11 r12 r13 r14 r15 (bcast16 (ax1 mod two32) x0) x1
              (bcast16q (32 mod two64) x2) x3 x4 x5 x6 x7 Hax1) as [fu Hfu];
    [rewrite bcast16_low, Hax1; reflexivity|rewrite bcast16q_low; reflexivity|apply bcast16q_length; exact Hx2|assumption|assumption|assumption|].
  eexists. unfold mk. ystep. fold ax1. ystep. ystep. ystep. ystep. ystep. ystep. ystep. ystep. ystep. ystep. change (16 mod two64) with 16.
  unfold mk, bcast16, bcast16q in Hfu. exact Hfu.
  Unshelve. all: exact O.
Qed.

Lemma cnt_t_c : cnt t = Z.of_nat (length (filter f s)).
Proof. apply cnt_map_ind. Qed.

End Case.

(* ===================================================================== *)
(* the wrappers: POPCNT test, then the letter test selects the body        *)
(* ===================================================================== *)
Notation c8 := (c mod 256).

Lemma wrap_upper_byt r0 : popcnt = true -> (c8 - 65) mod 256 <= 25 ->
  exists ax' cx' fl', ax' mod 256 = c8 /\ forall f,
    run (S (S (S (S (S (S (S (S (S (S (S f))))))))))) 0 (init r0)
    = run f 34 (mk ax' len cx' (r0 DX) A (r0 DI) slot (r0 R9) (r0 R10) (r0 R11) (r0 R12) (r0 R13) (r0 R14) (r0 R15)
                      (repeat 0 32) (repeat 0 32) (repeat 0 32) (repeat 0 32) (repeat 0 32) (repeat 0 32) (repeat 0 32) (repeat 0 32) fl' None).
Proof.
  intros Hpop Hc. pose proof (Z.mod_pos_bound c 256 ltac:(lia)) as Hc8.
  do 3 eexists. split; cycle 1.
  { intros f. unfold init.
    ystep. replace (if popcnt then 1 else 0) with 1 by (rewrite Hpop; reflexivity).
    ystep. rewrite holds_cmp_E. change (1 =? 1) with true. cbv iota.
    ystep. ystep. ystep. ystep. ystep. ystep.
    ystep. rewrite holds_cmp_BE. match goal with |- context [if ?b then _ else _] => replace b with true by (unfold two32, two64; lia) end. cbv iota.
    ystep. ystep.
    unfold mk. reflexivity. }
  cbv beta. unfold two32, two64. lia.
Qed.

Lemma wrap_lower_byt r0 : popcnt = true -> 25 < (c8 - 65) mod 256 /\ (c8 - 97) mod 256 <= 25 ->
  exists ax' cx' fl', ax' mod 256 = c8 /\ forall f,
    run (S (S (S (S (S (S (S (S (S (S (S (S (S (S f)))))))))))))) 0 (init r0)
    = run f 34 (mk ax' len cx' (r0 DX) A (r0 DI) slot (r0 R9) (r0 R10) (r0 R11) (r0 R12) (r0 R13) (r0 R14) (r0 R15)
                      (repeat 0 32) (repeat 0 32) (repeat 0 32) (repeat 0 32) (repeat 0 32) (repeat 0 32) (repeat 0 32) (repeat 0 32) fl' None).
Proof.
  intros Hpop Hc. pose proof (Z.mod_pos_bound c 256 ltac:(lia)) as Hc8.
  do 3 eexists. split; cycle 1.
  { intros f. unfold init.
    ystep. replace (if popcnt then 1 else 0) with 1 by (rewrite Hpop; reflexivity).
    ystep. rewrite holds_cmp_E. change (1 =? 1) with true. cbv iota.
    ystep. ystep. ystep. ystep. ystep. ystep.
    ystep. rewrite holds_cmp_BE. match goal with |- context [if ?b then _ else _] => replace b with false by (unfold two32, two64; lia) end. cbv iota.
    ystep. ystep. ystep. rewrite holds_cmp_A. match goal with |- context [if ?b then _ else _] => replace b with false by (unfold two32, two64; lia) end. cbv iota.
    ystep. ystep.
    unfold mk. reflexivity. }
  cbv beta. unfold two32, two64. lia.
Qed.

Lemma wrap_plain_byt r0 : popcnt = true -> 25 < (c8 - 65) mod 256 /\ 25 < (c8 - 97) mod 256 ->
  exists ax' cx' fl', (ax' mod two32) mod 256 = c8 /\ forall f,
    run (S (S (S (S (S (S (S (S (S (S (S (S (S (S f)))))))))))))) 0 (init r0)
    = run f 160 (mk ax' len cx' (r0 DX) A (r0 DI) slot (r0 R9) (r0 R10) (r0 R11) (r0 R12) (r0 R13) (r0 R14) (r0 R15)
                      (repeat 0 32) (repeat 0 32) (repeat 0 32) (repeat 0 32) (repeat 0 32) (repeat 0 32) (repeat 0 32) (repeat 0 32) fl' None).
Proof.
  intros Hpop Hc. pose proof (Z.mod_pos_bound c 256 ltac:(lia)) as Hc8.
  do 3 eexists. split; cycle 1.
  { intros f. unfold init.
    ystep. replace (if popcnt then 1 else 0) with 1 by (rewrite Hpop; reflexivity).
    ystep. rewrite holds_cmp_E. change (1 =? 1) with true. cbv iota.
    ystep. ystep. ystep. ystep. ystep. ystep.
    ystep. rewrite holds_cmp_BE. match goal with |- context [if ?b then _ else _] => replace b with false by (unfold two32, two64; lia) end. cbv iota.
    ystep. ystep. ystep. rewrite holds_cmp_A. match goal with |- context [if ?b then _ else _] => replace b with true by (unfold two32, two64; lia) end. cbv iota.
    ystep. ystep.
    unfold mk. reflexivity. }
  cbv beta. unfold two32, two64. lia.
Qed.

Lemma wrap_upper_str r0 : popcnt = true -> (c8 - 65) mod 256 <= 25 ->
  exists ax' cx' fl', ax' mod 256 = c8 /\ forall f,
    run (S (S (S (S (S (S (S (S (S (S (S f))))))))))) 17 (init r0)
    = run f 34 (mk ax' len cx' (r0 DX) A (r0 DI) slot (r0 R9) (r0 R10) (r0 R11) (r0 R12) (r0 R13) (r0 R14) (r0 R15)
                      (repeat 0 32) (repeat 0 32) (repeat 0 32) (repeat 0 32) (repeat 0 32) (repeat 0 32) (repeat 0 32) (repeat 0 32) fl' None).
Proof.
  intros Hpop Hc. pose proof (Z.mod_pos_bound c 256 ltac:(lia)) as Hc8.
  do 3 eexists. split; cycle 1.
  { intros f. unfold init.
    ystep. replace (if popcnt then 1 else 0) with 1 by (rewrite Hpop; reflexivity).
    ystep. rewrite holds_cmp_E. change (1 =? 1) with true. cbv iota.
    ystep. ystep. ystep. ystep. ystep. ystep.
    ystep. rewrite holds_cmp_BE. match goal with |- context [if ?b then _ else _] => replace b with true by (unfold two32, two64; lia) end. cbv iota.
    ystep. ystep.
    unfold mk. reflexivity. }
  cbv beta. unfold two32, two64. lia.
Qed.

Lemma wrap_lower_str r0 : popcnt = true -> 25 < (c8 - 65) mod 256 /\ (c8 - 97) mod 256 <= 25 ->
  exists ax' cx' fl', ax' mod 256 = c8 /\ forall f,
    run (S (S (S (S (S (S (S (S (S (S (S (S (S (S f)))))))))))))) 17 (init r0)
    = run f 34 (mk ax' len cx' (r0 DX) A (r0 DI) slot (r0 R9) (r0 R10) (r0 R11) (r0 R12) (r0 R13) (r0 R14) (r0 R15)
                      (repeat 0 32) (repeat 0 32) (repeat 0 32) (repeat 0 32) (repeat 0 32) (repeat 0 32) (repeat 0 32) (repeat 0 32) fl' None).
Proof.
  intros Hpop Hc. pose proof (Z.mod_pos_bound c 256 ltac:(lia)) as Hc8.
  do 3 eexists. split; cycle 1.
  { intros f. unfold init.
    ystep. replace (if popcnt then 1 else 0) with 1 by (rewrite Hpop; reflexivity).
    ystep. rewrite holds_cmp_E. change (1 =? 1) with true. cbv iota.
    ystep. ystep. ystep. ystep. ystep. ystep.
    ystep. rewrite holds_cmp_BE. match goal with |- context [if ?b then _ else _] => replace b with false by (unfold two32, two64; lia) end. cbv iota.
    ystep. ystep. ystep. rewrite holds_cmp_A. match goal with |- context [if ?b then _ else _] => replace b with false by (unfold two32, two64; lia) end. cbv iota.
    ystep. ystep.
    unfold mk. reflexivity. }
  cbv beta. unfold two32, two64. lia.
Qed.

Lemma wrap_plain_str r0 : popcnt = true -> 25 < (c8 - 65) mod 256 /\ 25 < (c8 - 97) mod 256 ->
  exists ax' cx' fl', (ax' mod two32) mod 256 = c8 /\ forall f,
    run (S (S (S (S (S (S (S (S (S (S (S (S (S (S f)))))))))))))) 17 (init r0)
    = run f 160 (mk ax' len cx' (r0 DX) A (r0 DI) slot (r0 R9) (r0 R10) (r0 R11) (r0 R12) (r0 R13) (r0 R14) (r0 R15)
                      (repeat 0 32) (repeat 0 32) (repeat 0 32) (repeat 0 32) (repeat 0 32) (repeat 0 32) (repeat 0 32) (repeat 0 32) fl' None).
Proof.
  intros Hpop Hc. pose proof (Z.mod_pos_bound c 256 ltac:(lia)) as Hc8.
  do 3 eexists. split; cycle 1.
  { intros f. unfold init.
    ystep. replace (if popcnt then 1 else 0) with 1 by (rewrite Hpop; reflexivity).
    ystep. rewrite holds_cmp_E. change (1 =? 1) with true. cbv iota.
    ystep. ystep. ystep. ystep. ystep. ystep.
    ystep. rewrite holds_cmp_BE. match goal with |- context [if ?b then _ else _] => replace b with false by (unfold two32, two64; lia) end. cbv iota.
    ystep. ystep. ystep. rewrite holds_cmp_A. match goal with |- context [if ?b then _ else _] => replace b with true by (unfold two32, two64; lia) end. cbv iota.
    ystep. ystep.
    unfold mk. reflexivity. }
  cbv beta. unfold two32, two64. lia.
Qed.

Lemma count_case x : 0 <= x < 256 -> ((x - 65) mod 256 <= 25 \/ (x - 97) mod 256 <= 25) ->
  Z.of_nat (length (filter (fun b => Z.lor x 32 =? Z.lor 32 b) s)) = k_count s x.
Proof.
  intros Hx Ha. unfold k_count. do 2 f_equal. apply filter_ext_wf; [exact Hwf|]. intros b Hb.
  pose proof (chk_pairs_spec _ asm_match_chk x b Hx Hb) as C. cbv beta in C.
  replace (((x - 65) mod 256 <=? 25) || ((x - 97) mod 256 <=? 25)) with true in C by lia. apply eqb_prop in C. exact C.
Qed.

Lemma count_plain x : 0 <= x < 256 -> (25 < (x - 65) mod 256 /\ 25 < (x - 97) mod 256) ->
  Z.of_nat (length (filter (Z.eqb x) s)) = k_count s x.
Proof.
  intros Hx Ha. unfold k_count. do 2 f_equal. apply filter_ext_wf; [exact Hwf|]. intros b Hb.
  pose proof (chk_pairs_spec _ asm_match_chk x b Hx Hb) as C. cbv beta in C.
  replace (((x - 65) mod 256 <=? 25) || ((x - 97) mod 256 <=? 25)) with false in C by lia. apply eqb_prop in C. exact C.
Qed.

(* THE KERNEL THEOREM for Count / CountString on a CPU with POPCNT: started with arbitrary register contents, for
   every needle byte, the run returns the scalar definition k_count (the number of bytes equal to the needle or,
   for an ASCII letter, to its other case): at every address >= 4096 and alignment, for every content of the
   surrounding memory, with and without AVX2; Done also says that no load left the pages of the argument, that
   the only store was the result and that no address computation or counter wrapped. *)

Theorem count_asm_byt r0 : popcnt = true ->
  exists fuel, run fuel entry_count_go122_amd64_Count (init r0) = Done (Some (k_count s c8)).
Proof.
  intros Hpop. pose proof (Z.mod_pos_bound c 256 ltac:(lia)) as Hc8. unfold entry_count_go122_amd64_Count.
  assert (L32 : (length (repeat 0 32) <= 32)%nat) by (rewrite repeat_length; lia).
  destruct (Z_le_gt_dec ((c8 - 65) mod 256) 25) as [Hu|Hu].
  - destruct (wrap_upper_byt r0 Hpop Hu) as (ax' & cx' & fl' & Hax & Hrun).
    destruct (body_case (Z.lor c8 32) ax' cx' (r0 DX) (r0 DI) (r0 R9) (r0 R10) (r0 R11) (r0 R12) (r0 R13) (r0 R14) (r0 R15)
                (repeat 0 32) (repeat 0 32) (repeat 0 32) (repeat 0 32) (repeat 0 32) (repeat 0 32) (repeat 0 32) (repeat 0 32) fl'
                ltac:(rewrite Hax; reflexivity) L32 L32 L32 L32) as [fu Hfu].
    eexists. rewrite Hrun. rewrite Hfu. rewrite cnt_t_c. f_equal. f_equal. apply count_case; [exact Hc8|left; exact Hu].
  - destruct (Z_le_gt_dec ((c8 - 97) mod 256) 25) as [Hl|Hl].
    + destruct (wrap_lower_byt r0 Hpop ltac:(lia)) as (ax' & cx' & fl' & Hax & Hrun).
      destruct (body_case (Z.lor c8 32) ax' cx' (r0 DX) (r0 DI) (r0 R9) (r0 R10) (r0 R11) (r0 R12) (r0 R13) (r0 R14) (r0 R15)
                  (repeat 0 32) (repeat 0 32) (repeat 0 32) (repeat 0 32) (repeat 0 32) (repeat 0 32) (repeat 0 32) (repeat 0 32) fl'
                  ltac:(rewrite Hax; reflexivity) L32 L32 L32 L32) as [fu Hfu].
      eexists. rewrite Hrun. rewrite Hfu. rewrite cnt_t_c. f_equal. f_equal. apply count_case; [exact Hc8|right; lia].
    + destruct (wrap_plain_byt r0 Hpop ltac:(lia)) as (ax' & cx' & fl' & Hax & Hrun).
      destruct (body_plain c8 ax' cx' (r0 DX) (r0 DI) (r0 R9) (r0 R10) (r0 R11) (r0 R12) (r0 R13) (r0 R14) (r0 R15)
                  (repeat 0 32) (repeat 0 32) (repeat 0 32) (repeat 0 32) (repeat 0 32) (repeat 0 32) (repeat 0 32) (repeat 0 32) fl'
                  Hax L32 L32 L32 L32) as [fu Hfu].
      eexists. rewrite Hrun. rewrite Hfu. rewrite cnt_t. f_equal. f_equal. apply count_plain; [exact Hc8|lia].
Qed.

(* without POPCNT the wrapper hands over to the Go fallback after two instructions, having loaded and stored nothing *)
Theorem count_asm_byt_nopopcnt r0 : popcnt = false -> run 3 entry_count_go122_amd64_Count (init r0) = Delegated.
Proof.
  intros Hpop. unfold entry_count_go122_amd64_Count, init.
  ystep. replace (if popcnt then 1 else 0) with 0 by (rewrite Hpop; reflexivity).
  ystep. rewrite holds_cmp_E. change (0 =? 1) with false. cbv iota.
  ystep. reflexivity.
Qed.

Theorem count_asm_str r0 : popcnt = true ->
  exists fuel, run fuel entry_count_go122_amd64_CountString (init r0) = Done (Some (k_count s c8)).
Proof.
  intros Hpop. pose proof (Z.mod_pos_bound c 256 ltac:(lia)) as Hc8. unfold entry_count_go122_amd64_CountString.
  assert (L32 : (length (repeat 0 32) <= 32)%nat) by (rewrite repeat_length; lia).
  destruct (Z_le_gt_dec ((c8 - 65) mod 256) 25) as [Hu|Hu].
  - destruct (wrap_upper_str r0 Hpop Hu) as (ax' & cx' & fl' & Hax & Hrun).
    destruct (body_case (Z.lor c8 32) ax' cx' (r0 DX) (r0 DI) (r0 R9) (r0 R10) (r0 R11) (r0 R12) (r0 R13) (r0 R14) (r0 R15)
                (repeat 0 32) (repeat 0 32) (repeat 0 32) (repeat 0 32) (repeat 0 32) (repeat 0 32) (repeat 0 32) (repeat 0 32) fl'
                ltac:(rewrite Hax; reflexivity) L32 L32 L32 L32) as [fu Hfu].
    eexists. rewrite Hrun. rewrite Hfu. rewrite cnt_t_c. f_equal. f_equal. apply count_case; [exact Hc8|left; exact Hu].
  - destruct (Z_le_gt_dec ((c8 - 97) mod 256) 25) as [Hl|Hl].
    + destruct (wrap_lower_str r0 Hpop ltac:(lia)) as (ax' & cx' & fl' & Hax & Hrun).
      destruct (body_case (Z.lor c8 32) ax' cx' (r0 DX) (r0 DI) (r0 R9) (r0 R10) (r0 R11) (r0 R12) (r0 R13) (r0 R14) (r0 R15)
                  (repeat 0 32) (repeat 0 32) (repeat 0 32) (repeat 0 32) (repeat 0 32) (repeat 0 32) (repeat 0 32) (repeat 0 32) fl'
                  ltac:(rewrite Hax; reflexivity) L32 L32 L32 L32) as [fu Hfu].
      eexists. rewrite Hrun. rewrite Hfu. rewrite cnt_t_c. f_equal. f_equal. apply count_case; [exact Hc8|right; lia].
    + destruct (wrap_plain_str r0 Hpop ltac:(lia)) as (ax' & cx' & fl' & Hax & Hrun).
      destruct (body_plain c8 ax' cx' (r0 DX) (r0 DI) (r0 R9) (r0 R10) (r0 R11) (r0 R12) (r0 R13) (r0 R14) (r0 R15)
                  (repeat 0 32) (repeat 0 32) (repeat 0 32) (repeat 0 32) (repeat 0 32) (repeat 0 32) (repeat 0 32) (repeat 0 32) fl'
                  Hax L32 L32 L32 L32) as [fu Hfu].
      eexists. rewrite Hrun. rewrite Hfu. rewrite cnt_t. f_equal. f_equal. apply count_plain; [exact Hc8|lia].
Qed.

(* without POPCNT the wrapper hands over to the Go fallback after two instructions, having loaded and stored nothing *)
Theorem count_asm_str_nopopcnt r0 : popcnt = false -> run 3 entry_count_go122_amd64_CountString (init r0) = Delegated.
Proof.
  intros Hpop. unfold entry_count_go122_amd64_CountString, init.
  ystep. replace (if popcnt then 1 else 0) with 0 by (rewrite Hpop; reflexivity).
  ystep. rewrite holds_cmp_E. change (0 =? 1) with false. cbv iota.
  ystep. reflexivity.
Qed.

End K.
