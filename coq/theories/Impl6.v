(* Impl6.v — structure-faithful model, continued: Index and its strategies
   (nonLetterASCII, hashStrUnicode, indexRabinKarpUnicode,
   bruteForceIndexUnicode, the main loop).  Parameters: configuration
   (native, cutover), thresholds (maxBruteForce, maxLen, primeRK — regenerated
   from the source, the theorems hold for every value), the table lookups.
   Index arithmetic is on Z with Go's bounds checks (get / slice_from /
   slice_to return Panic); loops take fuel.  The two packages have the same
   shape here except where noted. *)
From Strcase Require Import Base Utf8 Spec Impl Impl4 Impl5 Kernels.

Section Impl6.
Variable native : bool.
Variable cutover : Z -> Z.
Variable fold : Z -> Z.
Variable lower : Z -> Z.
Variable fold_map : Z -> option (list Z).
Variable fold_map_excl : Z -> Z * Z.              (* tables.FoldMapExcludingUpperLower *)
Variable upper_lower : Z -> Z * Z * bool.
Variable maxBruteForce maxLen primeRK : Z.
Variable nativeMax : Z.        (* the K of "bytealg.NativeIndex && n <= K && nonLetterASCII(substr)" (generated: Consts.v) *)
Variable rtMaxLen : Z.         (* the runtime's internal/bytealg.MaxLen (generated: Oracle.rt_maxlen_min) *)
Variable p : pkg.

Notation hasPrefixUnicode := (Impl.hasPrefixUnicode fold lower p).
Notation HasPrefix := (Impl.HasPrefix fold lower p).
Notation indexRune := (Impl5.indexRune native cutover fold_map upper_lower).
Notation indexRune2 := (Impl5.indexRune2 native cutover).
Notation IndexRune := (Impl5.IndexRune native cutover fold_map upper_lower).
Notation IndexByte := (Impl5.IndexByte native cutover).

(* "if s[0] < RuneSelf { r, n = rune(s[0]), 1 } else { r, n = DecodeRune(s) }"; s[0] is bounds-checked *)
Definition first_rune (s : bytes) : res (Z * Z) :=
  match s with
  | [] => Panic
  | b :: _ => if b <? 128 then Ok (b, 1) else let d := decode s in Ok (fst d, Z.of_nat (snd d))
  end.

(* same, but folded: "rune(_lower[s[0]])" / "CaseFold(DecodeRune(s))" *)
Definition first_folded (s : bytes) : res (Z * Z) :=
  match s with
  | [] => Panic
  | b :: _ => if b <? 128 then Ok (lower b, 1) else let d := decode s in Ok (fold (fst d), Z.of_nat (snd d))
  end.

(* nonLetterASCII: "c := s[i] | ' '; if c&RuneSelf != 0 || 'a' <= c && c <= 'z' { return false }" *)
Definition nonLetterASCII (s : bytes) : bool :=
  forallb (fun b => negb ((128 <=? b) || ((97 <=? or20 b) && (or20 b <=? 122)))) s.

(* uint32 arithmetic *)
Definition w32 (x : Z) : Z := x mod 4294967296.

(* hashStrUnicode: (hash, pow, rune count); both package shapes fold every code point of sep *)
Fixpoint hash_runes (fuel : nat) (sep : bytes) (h n : Z) : res (Z * Z) :=
  match fuel with
  | O => OutOfFuel
  | S f =>
    match sep with
    | [] => Ok (h, n)
    | _ :: _ =>
      do rw <- first_folded sep;
      do rest <- slice_from sep (snd rw);
      hash_runes f rest (w32 (w32 (h * primeRK) + w32 (fst rw))) (n + 1)
    end
  end.

(* "for i := n; i > 0; i >>= 1 { if i&1 != 0 { pow *= sq }; sq *= sq }" *)
Fixpoint pow_loop (fuel : nat) (i pow sq : Z) : res Z :=
  match fuel with
  | O => OutOfFuel
  | S f =>
    if 0 <? i then pow_loop f (Z.shiftr i 1) (if Z.odd i then w32 (pow * sq) else pow) (w32 (sq * sq))
    else Ok pow
  end.

Definition hashStrUnicode (sep : bytes) : res (Z * Z * Z) :=
  do hn <- hash_runes (S (length sep)) sep 0 0;
  do pw <- pow_loop (S (length sep)) (snd hn) 1 (w32 primeRK);
  Ok (fst hn, pw, snd hn).

(* first loop of indexRabinKarpUnicode: hash of the first n code points of s; returns (h, j, n left) *)
Fixpoint rk_init (fuel : nat) (s : bytes) (j h n : Z) : res (Z * Z * Z) :=
  match fuel with
  | O => OutOfFuel
  | S f =>
    if j <? len s then
      do t <- slice_from s j;
      do rw <- first_folded t;
      let h' := w32 (w32 (h * primeRK) + w32 (fst rw)) in
      let j' := j + snd rw in
      if n - 1 =? 0 then Ok (h', j', 0) else rk_init f s j' h' (n - 1)
    else Ok (h, j, n)
  end.

(* rolling loop: window s[i:j] *)
Fixpoint rk_roll (fuel : nat) (s substr : bytes) (hashss pow : Z) (i j h : Z) : res Z :=
  match fuel with
  | O => OutOfFuel
  | S f =>
    if j <? len s then
      do tj <- slice_from s j;
      do r0 <- first_folded tj;
      do ti <- slice_from s i;
      do r1 <- first_folded ti;
      let h' := w32 (w32 (w32 (h * primeRK) + w32 (fst r0)) - w32 (pow * w32 (fst r1))) in
      let j' := j + snd r0 in
      let i' := i + snd r1 in
      do win <- (do a <- slice_to s j'; slice_from a i');
      do m <- (if h' =? hashss then HasPrefix win substr else Ok false);
      if m then Ok i' else rk_roll f s substr hashss pow i' j' h'
    else Ok (-1)
  end.

(* strcase: when s has fewer than n code points the range loop ends with sz = 0, so the rolling
   loop restarts from j = 0; bytcase keeps j = len(s).  (No observable difference: proved.) *)
Definition indexRabinKarpUnicode (s substr : bytes) : res Z :=
  do hpn <- hashStrUnicode substr;
  let '(hashss, pow, n) := hpn in
  do hjn <- rk_init (S (length s)) s 0 0 n;
  let '(h, j, nleft) := hjn in
  do m0 <- (if h =? hashss then HasPrefix s substr else Ok false);
  if m0 then Ok 0
  else
    let j0 := match p with Str => if nleft =? 0 then j else 0 | Byt => j end in
    rk_roll (S (length s)) s substr hashss pow 0 j0 h.

(* the İ / ı special case: "switch u { case 'İ': l = 'İ'; case 'ı': l = 'ı'; default: u, l, _ = ToUpperLower(u) }" *)
Definition ul_hack (u : Z) : Z * Z :=
  if (u =? 304) || (u =? 305) then (u, u) else let '(up, lo, _) := upper_lower u in (up, lo).

(* candidate tests of the three arms of bruteForceIndexUnicode and of Index *)
Definition cand (u l : Z) (folds : Z * Z) (r : Z) : bool :=
  (r =? u) || (r =? l) || (negb (fst folds =? 0) && ((r =? fst folds) || (r =? snd folds))).

(* the search loop shared by the three arms *)
Fixpoint bf_loop (fuel : nat) (s needle : bytes) (t : Z) (c0 c1 skip : Z -> bool) (i : Z) : res Z :=
  match fuel with
  | O => OutOfFuel
  | S f =>
    if i <? t then
      do si <- slice_from s i;
      do rn0 <- first_rune si;
      let '(r0, n0) := rn0 in
      if negb (c0 r0) then bf_loop f s needle t c0 c1 skip (i + n0)
      else if t <=? i + n0 then Ok (-1)
      else
        do si1 <- slice_from s (i + n0);
        do rn1 <- first_rune si1;
        let '(r1, n1) := rn1 in
        let adv := i + n0 + (if skip r1 then n1 else 0) in
        if negb (c1 r1) then bf_loop f s needle t c0 c1 skip adv
        else
          do rest <- slice_from s (i + n0 + n1);
          do me <- hasPrefixUnicode rest needle;
          if fst me then Ok i
          else if snd me then Ok (-1)
          else bf_loop f s needle t c0 c1 skip adv
    else Ok (-1)
  end.

Definition bruteForceIndexUnicode (s substr : bytes) : res Z :=
  do rn0 <- first_rune substr;
  let '(u0, sz0) := rn0 in
  do sub1 <- slice_from substr sz0;
  do rn1 <- first_rune sub1;
  let '(u1, sz1) := rn1 in
  let folds0 := fold_map_excl u0 in
  let folds1 := fold_map_excl u1 in
  let hasFolds0 := negb (fst folds0 =? 0) in
  let hasFolds1 := negb (fst folds1 =? 0) in
  do needle <- slice_from substr (sz0 + sz1);
  let '(U0, l0) := ul_hack u0 in
  let '(U1, l1) := ul_hack u1 in
  let t0 := len s - len substr / 3 + 2 in
  let t := if len s <? t0 then len s else t0 in
  if negb hasFolds0 && (U0 =? l0) && negb hasFolds1 && (U1 =? l1) then
    (* caseless first two code points: jump to their first raw occurrence *)
    do i0 <- (if negb (U0 =? RuneError) && negb (U1 =? RuneError)
              then do pre <- slice_to substr (sz0 + sz1); Ok (std_index s pre) else Ok 0);
    if i0 <? 0 then Ok (-1)
    else bf_loop (S (length s)) s needle t (fun r => r =? U0) (fun r => r =? U1) (fun r1 => negb (r1 =? U0)) i0
  else if negb hasFolds0 && negb hasFolds1 then
    bf_loop (S (length s)) s needle t (fun r => (r =? U0) || (r =? l0)) (fun r => (r =? U1) || (r =? l1))
            (fun r1 => negb (r1 =? U0) && negb (r1 =? l0)) 0
  else
    bf_loop (S (length s)) s needle t (cand U0 l0 folds0) (cand U1 l1 folds1)
            (fun r1 => negb hasFolds0 && negb (r1 =? U0) && negb (r1 =? l0)) 0.

(* main loop of Index *)
Fixpoint idx_loop (fuel : nat) (s substr needle : bytes) (t : Z) (u0 l0 u1 l1 : Z) (folds0 folds1 : Z * Z)
         (i fails : Z) : res Z :=
  match fuel with
  | O => OutOfFuel
  | S f =>
    if i <? t then
      do si <- slice_from s i;
      do rn0 <- first_rune si;
      let '(r0, n0) := rn0 in
      (* not a candidate for the first code point: jump to the next one *)
      do jump <- (if negb (cand u0 l0 folds0 r0) then
                    do rest <- slice_from s (i + n0);
                    do osz <- (if fst folds0 =? 0 then indexRune2 rest l0 u0 else indexRune rest l0);
                    if fst osz <? 0 then Ok None else Ok (Some (i + fst osz + n0, snd osz))
                  else Ok (Some (i, n0)));
      match jump with
      | None => Ok (-1)
      | Some (i1, m0) =>
        if len s <=? i1 + m0 then Ok (-1)
        else
          do si1 <- slice_from s (i1 + m0);
          do rn1 <- first_rune si1;
          let '(r1, n1) := rn1 in
          do stop <- (if cand u1 l1 folds1 r1 then
                        do rest <- slice_from s (i1 + m0 + n1);
                        do me <- hasPrefixUnicode rest needle;
                        if fst me then Ok (Some i1) else if snd me then Ok (Some (-1)) else Ok None
                      else Ok None);
          match stop with
          | Some v => Ok v
          | None =>
            let fails' := fails + 1 in
            let i2 := i1 + m0 in
            if (4 + Z.shiftr i2 4 <=? fails') && (i2 <? t) then
              do rest <- slice_from s i2;
              do j <- indexRabinKarpUnicode rest substr;
              if j <? 0 then Ok (-1) else Ok (i2 + j)
            else idx_loop f s substr needle t u0 l0 u1 l1 folds0 folds1 i2 fails'
          end
      end
    else Ok (-1)
  end.

Definition Index (s substr : bytes) : res Z :=
  let n := len substr in
  match substr with
  | [] => Ok 0
  | _ :: _ =>
    do rsz <- first_rune substr;
    let '(r, size) := rsz in
    if (n =? 1) && negb (r =? RuneError) then IndexByte s r
    else if n =? size then IndexRune s r
    else
      (* case n >= len(s) / case n <= maxLen: may return early *)
      do early <- (if len s <=? n then
                     if len s * 3 <? n then Ok (Some (-1))
                     else
                       do i <- IndexRune s r;
                       if i <? 0 then Ok (Some (-1))
                       else
                         do s' <- slice_from s i;
                         if (len s' * 2 <? n) && negb (contains_kelvin substr) then Ok (Some (-1))
                         else
                           do o <- bruteForceIndexUnicode s' substr;
                           if negb (o =? -1) then Ok (Some (o + i)) else Ok (Some (-1))
                   else if n <=? maxLen then
                     if native && (n <=? nativeMax) && nonLetterASCII substr then do o <- native_index rtMaxLen s substr; Ok (Some o)
                     else if len s <=? maxBruteForce then do o <- bruteForceIndexUnicode s substr; Ok (Some o)
                     else Ok None
                   else Ok None);
      match early with
      | Some v => Ok v
      | None =>
        do rn0 <- first_rune substr;
        let '(u0, sz0) := rn0 in
        do sub1 <- slice_from substr sz0;
        do rn1 <- first_rune sub1;
        let '(u1, sz1) := rn1 in
        if (u0 =? RuneError) || (u1 =? RuneError) then indexRabinKarpUnicode s substr
        else
          let folds0 := fold_map_excl u0 in
          let folds1 := fold_map_excl u1 in
          do needle <- slice_from substr (sz0 + sz1);
          let '(U0, l0) := ul_hack u0 in
          let '(U1, l1) := ul_hack u1 in
          let t0 := len s - len substr / 3 + 1 in
          let t := if len s <? t0 then len s else t0 in
          idx_loop (S (length s)) s substr needle t U0 l0 U1 l1 folds0 folds1 0 0
      end
  end.

Definition Contains (s substr : bytes) : res bool := do i <- Index s substr; Ok (0 <=? i).

End Impl6.
