(* Impl2.v — structure-faithful model, continued: the right-to-left
   functions (hasSuffixUnicode, HasSuffix, TrimSuffix, CutSuffix).  The Go
   code walks index i down from len(s)-1 and re-slices s[:i+1]; the model
   walks the reversed byte list (last byte first), so "s[:n]" is the tail of
   the reversed list and len(s) its length.  The two packages have the same
   shape here. *)
From Strcase Require Import Base Utf8 Spec Impl.

Section Impl2.
Variable fold : Z -> Z.      (* tables.CaseFold *)
Variable lower : Z -> Z.     (* _lower[b] *)

(* "if n := len(s)-1; s[n] < RuneSelf { sr, s = rune(_lower[s[n]]), s[:n] }
    else { r, size := DecodeLastRune(s); sr, s = r, s[:len(s)-size] }" on the reversed list *)
Definition prev_raw (rs : bytes) : Z * bytes :=
  match rs with
  | [] => (RuneError, [])
  | b :: rs' => if b <? 128 then (lower b, rs')
                else let d := decode_last_rev rs in (fst d, skipn (snd d) rs)
  end.

(* hasUnicode loop: for len(s) != 0 && len(t) != 0 { ... }; return len(t) == 0, len(s) *)
Fixpoint hs_runes (fuel : nat) (rs rt : bytes) : res (bool * Z) :=
  match fuel with
  | O => OutOfFuel
  | S f =>
    match rs, rt with
    | _ :: _, _ :: _ =>
      let '(sr, rs1) := prev_raw rs in
      let '(tr, rt1) := prev_raw rt in
      if (sr =? tr) || (fold sr =? fold tr) then hs_runes f rs1 rt1 else Ok (false, 0)
    | _, _ => Ok (is_nil rt, len rs)
    end
  end.

(* ASCII loop from the end: for ; i >= 0 && j >= 0; i, j = i-1, j-1; return j == -1, i + 1 *)
Fixpoint hs_ascii (rs rt : bytes) : res (bool * Z) :=
  match rs, rt with
  | sr :: rs', tr :: rt' =>
    if non_ascii2 sr tr then hs_runes (S (length rs)) rs rt
    else if (tr =? sr) || (lower sr =? lower tr) then hs_ascii rs' rt'
    else Ok (false, 0)
  | _, _ => Ok (is_nil rt, len rs)
  end.

Definition hasSuffixUnicode (s suffix : bytes) : res (bool * Z) :=
  if is_nil suffix then Ok (true, len s)
  else if (len s * 3 <? len suffix) || ((len s * 2 <? len suffix) && negb (contains_kelvin suffix))
  then Ok (false, 0)
  else hs_ascii (rev_append s []) (rev_append suffix []).

Definition HasSuffix (s suffix : bytes) : res bool :=
  do r <- hasSuffixUnicode s suffix; Ok (fst r).

(* "if match, i := hasSuffixUnicode(s, suffix); match { return s[:i] }; return s" *)
Definition TrimSuffix (s suffix : bytes) : res (Z * Z) :=
  do r <- hasSuffixUnicode s suffix;
  if fst r then (if (0 <=? snd r) && (snd r <=? len s) then Ok (0, snd r) else Panic) else Ok (0, len s).

Definition CutSuffix (s suffix : bytes) : res (Z * Z * bool) :=
  if is_nil suffix then Ok ((0, len s), true)
  else do r <- hasSuffixUnicode s suffix;
       if fst r then (if (0 <=? snd r) && (snd r <=? len s) then Ok ((0, snd r), true) else Panic)
       else Ok ((0, len s), false).

End Impl2.
