(* Utf8Last.v — backward decoding agrees with forward segmentation, for
   arbitrary byte strings: the (rune, width) that utf8.DecodeLastRune
   reports is exactly the last segment of the forward (DecodeRune)
   segmentation, and what precedes it is segmented as before.  This is what
   lets every right-to-left loop of the library (hasSuffixUnicode,
   LastIndexByte, lastIndexRune, LastIndexAny, the reverse Rabin-Karp) be
   read against the same rune sequence as the left-to-right ones. *)
From Strcase Require Import Base Utf8 Utf8Facts.
From Coq Require Import ZifyBool ZifyNat.

Definition RE1 : Z * nat := (RuneError, 1%nat).

(* ---------- local facts about decode ---------- *)

Lemma decode_cont_head c l : is_cont c = true -> decode (c :: l) = RE1.
Proof.
  unfold is_cont, decode, RE1. intros H.
  destruct (c <? 128) eqn:?; [lia|].
  destruct ((194 <=? c) && (c <=? 223)) eqn:?; [lia|].
  destruct ((224 <=? c) && (c <=? 239)) eqn:?; [lia|].
  destruct ((240 <=? c) && (c <=? 244)) eqn:?; [lia|]. reflexivity.
Qed.

Lemma decode_single_hi b : 128 <= b -> decode [b] = RE1.
Proof.
  unfold decode, RE1. intros H. destruct (b <? 128) eqn:?; [lia|].
  repeat match goal with |- context [if ?c then _ else _] => destruct c end; reflexivity.
Qed.

(* bytes strictly inside a segment are continuation bytes *)
Ltac split_all_ifs :=
  repeat match goal with
  | H : context [if ?c then _ else _] |- _ => destruct c eqn:?
  | |- context [if ?c then _ else _] => destruct c eqn:?
  end.

Lemma decode_interior l j :
  (0 < j < snd (decode l))%nat -> is_cont (nth j l 0) = true.
Proof.
  intros H. unfold decode in H.
  destruct l as [|b0 [|b1 [|b2 [|b3 l]]]]; cbn [snd] in H; try lia;
    split_all_ifs; cbn [snd] in H; try lia;
    destruct j as [|[|[|[|j]]]]; try lia; cbn [nth]; unfold is_cont in *; lia.
Qed.

(* a start byte right after [pre] cannot be consumed by a segment of [pre] *)
Lemma decode_app_start pre b l :
  pre <> [] -> is_start b = true -> decode (pre ++ b :: l) = decode pre.
Proof.
  intros Hne Hb. unfold is_start, is_cont in Hb.
  destruct pre as [|b0 [|b1 [|b2 [|b3 pre]]]]; [congruence| | | |]; cbn [app];
    unfold decode, is_cont; decode_cases; try reflexivity; try lia.
Qed.

Lemma decode_width_app_start pre b l :
  pre <> [] -> is_start b = true -> (snd (decode (pre ++ b :: l)) <= length pre)%nat.
Proof. intros Hne Hb. rewrite decode_app_start by assumption. apply decode_width_le. Qed.

(* ---------- splitting the segmentation at a start byte ---------- *)

Lemma segs_app_start (pre : bytes) b l :
  is_start b = true -> segs (pre ++ b :: l) = segs pre ++ segs (b :: l).
Proof.
  intros Hb. induction pre as [|c r IH] using segs_ind; [reflexivity|].
  assert (Hne : c :: r <> []) by discriminate.
  change ((c :: r) ++ b :: l) with (c :: (r ++ b :: l)).
  rewrite (segs_cons c (r ++ b :: l)). change (c :: r ++ b :: l) with ((c :: r) ++ b :: l).
  rewrite (decode_app_start _ b l Hne Hb).
  rewrite skipn_app_le by apply decode_width_le.
  rewrite IH. rewrite (segs_cons c r). reflexivity.
Qed.

Lemma segs_cont_all l : forallb is_cont l = true -> segs l = map (fun _ => RE1) l.
Proof.
  induction l as [|c l IH]; intros H; [reflexivity|].
  cbn [forallb] in H. apply andb_true_iff in H as [Hc Hl].
  rewrite segs_cons, (decode_cont_head c l Hc). unfold RE1. cbn [snd skipn map]. f_equal. apply IH. exact Hl.
Qed.

Lemma forallb_skipn {A} (f : A -> bool) n l : forallb f l = true -> forallb f (skipn n l) = true.
Proof.
  revert l. induction n as [|n IH]; intros l H; [exact H|]. destruct l as [|x l]; [reflexivity|].
  cbn [forallb] in H. apply andb_true_iff in H as [_ H]. apply IH. exact H.
Qed.

Lemma map_const_snoc {A B} (y : B) (l : list A) (x : A) :
  map (fun _ => y) (l ++ [x]) = map (fun _ => y) l ++ [y].
Proof. rewrite map_app. reflexivity. Qed.

(* a start byte followed by continuation bytes, the whole not being one
   segment: appending one more continuation byte appends one (RuneError,1) *)
Lemma segs_start_conts_snoc b conts c :
  forallb is_cont conts = true -> is_cont c = true ->
  (snd (decode (b :: conts ++ [c])) <= length (b :: conts))%nat ->
  segs (b :: conts ++ [c]) = segs (b :: conts) ++ [RE1].
Proof.
  intros Hcs Hc Hw.
  assert (Hd : decode (b :: conts) = decode (b :: conts ++ [c])).
  { change (b :: conts ++ [c]) with ((b :: conts) ++ [c]).
    rewrite <- (decode_firstn ((b :: conts) ++ [c]) (length (b :: conts))) by exact Hw.
    rewrite firstn_app, Nat.sub_diag, firstn_all. cbn [firstn]. rewrite app_nil_r. reflexivity. }
  rewrite (segs_cons b (conts ++ [c])), (segs_cons b conts), Hd.
  set (w := snd (decode (b :: conts ++ [c]))) in *.
  pose proof (decode_width_pos b (conts ++ [c])) as Hp. fold w in Hp.
  destruct w as [|w]; [lia|]. cbn [skipn]. cbn [length] in Hw.
  rewrite skipn_app_le by lia.
  rewrite (segs_cont_all (skipn w conts ++ [c])).
  2:{ rewrite forallb_app. rewrite forallb_skipn by exact Hcs. cbn. rewrite Hc. reflexivity. }
  rewrite (segs_cont_all (skipn w conts)) by (apply forallb_skipn; exact Hcs).
  rewrite map_const_snoc. reflexivity.
Qed.

(* four continuation bytes at the end: the last one is a segment of its own *)
Lemma segs_four_conts (pre : bytes) c3 c2 c1 c0 :
  is_cont c3 = true -> is_cont c2 = true -> is_cont c1 = true -> is_cont c0 = true ->
  segs (pre ++ [c3; c2; c1; c0]) = segs (pre ++ [c3; c2; c1]) ++ [RE1].
Proof.
  intros H3 H2 H1 H0. induction pre as [|a r IH] using segs_ind.
  { cbn [app]. rewrite !segs_cont_all by (cbn; rewrite ?H3, ?H2, ?H1, ?H0; reflexivity). reflexivity. }
  change ((a :: r) ++ [c3; c2; c1; c0]) with (a :: (r ++ [c3; c2; c1; c0])).
  change ((a :: r) ++ [c3; c2; c1]) with (a :: (r ++ [c3; c2; c1])).
  assert (Hd : decode (a :: r ++ [c3; c2; c1]) = decode (a :: r ++ [c3; c2; c1; c0])).
  { pose proof (decode_width_pos a (r ++ [c3; c2; c1; c0])) as Hp.
    rewrite <- (decode_firstn (a :: r ++ [c3; c2; c1; c0]) (length (a :: r) + 3)).
    - change (a :: r ++ [c3; c2; c1; c0]) with ((a :: r) ++ [c3; c2; c1; c0]).
      rewrite firstn_app. replace (length (a :: r) + 3 - length (a :: r))%nat with 3%nat by lia.
      rewrite firstn_all2 by lia. reflexivity.
    - cbn [length]. lia. }
  rewrite (segs_cons a (r ++ [c3; c2; c1; c0])), (segs_cons a (r ++ [c3; c2; c1])), Hd.
  set (w := snd (decode (a :: r ++ [c3; c2; c1; c0]))).
  cbn [app]. f_equal.
  destruct (le_lt_dec w (length (a :: r))) as [Hle|Hgt].
  - change (a :: r ++ [c3; c2; c1; c0]) with ((a :: r) ++ [c3; c2; c1; c0]).
    change (a :: r ++ [c3; c2; c1]) with ((a :: r) ++ [c3; c2; c1]).
    rewrite !skipn_app_le by exact Hle.
    assert (Hw : w = snd (decode (a :: r))).
    { unfold w. change (a :: r ++ [c3; c2; c1; c0]) with ((a :: r) ++ [c3; c2; c1; c0]).
      rewrite <- (decode_firstn ((a :: r) ++ [c3; c2; c1; c0]) (length (a :: r))) by exact Hle.
      rewrite firstn_app, Nat.sub_diag, firstn_all. cbn [firstn]. rewrite app_nil_r. reflexivity. }
    rewrite Hw. apply IH.
  - pose proof (decode_width_pos a (r ++ [c3; c2; c1; c0])) as Hp. fold w in Hp.
    change (a :: r ++ [c3; c2; c1; c0]) with ((a :: r) ++ [c3; c2; c1; c0]).
    change (a :: r ++ [c3; c2; c1]) with ((a :: r) ++ [c3; c2; c1]).
    rewrite !skipn_app. rewrite !(skipn_all2 (n := w) (a :: r)) by lia. cbn [app].
    assert (Hk : (1 <= w - length (a :: r) <= 3)%nat) by (cbn [length] in *; lia).
    destruct (w - length (a :: r))%nat as [|[|[|[|k]]]]; try lia; cbn [skipn];
      rewrite !segs_cont_all by (cbn; rewrite ?H3, ?H2, ?H1, ?H0; reflexivity); reflexivity.
Qed.

(* ---------- DecodeLastRune ---------- *)

(* a full-width decode of a list whose last byte is a start byte has width 1 *)
Lemma decode_full_last_cont l b :
  l <> [] -> snd (decode (l ++ [b])) = length (l ++ [b]) -> is_cont b = true.
Proof.
  intros Hne Hw. rewrite app_length in Hw. cbn [length] in Hw.
  assert (Hn : nth (length l) (l ++ [b]) 0 = b).
  { rewrite app_nth2 by lia. rewrite Nat.sub_diag. reflexivity. }
  rewrite <- Hn. apply decode_interior. destruct l; [congruence|]. cbn [length] in *. lia.
Qed.

Lemma chk_last_cases l :
  l <> [] -> (chk_last l = decode l /\ snd (decode l) = length l) \/
             (chk_last l = RE1 /\ (snd (decode l) < length l)%nat).
Proof.
  intros Hne. unfold chk_last. pose proof (decode_width_le l).
  destruct (snd (decode l) =? length l)%nat eqn:E; [left|right]; split; try reflexivity; lia.
Qed.

Lemma segs_full l : l <> [] -> snd (decode l) = length l -> segs l = [decode l].
Proof.
  intros Hne Hw. rewrite (segs_unfold l Hne), Hw, skipn_all. reflexivity.
Qed.

Lemma rev_cons2 (b0 b1 : Z) r : rev (b0 :: b1 :: r) = rev r ++ [b1; b0].
Proof. cbn [rev]. rewrite <- app_assoc. reflexivity. Qed.
Lemma rev_cons3 (b0 b1 b2 : Z) r : rev (b0 :: b1 :: b2 :: r) = rev r ++ [b2; b1; b0].
Proof. cbn [rev]. rewrite <- !app_assoc. reflexivity. Qed.
Lemma rev_cons4 (b0 b1 b2 b3 : Z) r : rev (b0 :: b1 :: b2 :: b3 :: r) = rev r ++ [b3; b2; b1; b0].
Proof. cbn [rev]. rewrite <- !app_assoc. reflexivity. Qed.

Lemma is_start_cont b : is_start b = negb (is_cont b).
Proof. reflexivity. Qed.

(* the generic step for a scan that found the start byte [bk] followed by
   continuation bytes [conts] and the final byte [b0] (>= 0x80) *)
Lemma last_via_start pre bk conts b0 :
  is_start bk = true -> forallb is_cont conts = true -> 128 <= b0 ->
  let l := bk :: conts ++ [b0] in
  let d := chk_last l in
  (d = decode l /\ snd d = length l /\ segs (pre ++ l) = segs pre ++ [d]) \/
  (d = RE1 /\ segs (pre ++ l) = segs (pre ++ bk :: conts) ++ [RE1]).
Proof.
  intros Hk Hcs H0 l d. subst d.
  assert (Hne : l <> []) by discriminate.
  destruct (chk_last_cases l Hne) as [[E W]|[E W]]; rewrite E.
  - left. split; [reflexivity|]. split; [exact W|].
    unfold l at 1. rewrite (segs_app_start pre bk (conts ++ [b0]) Hk). fold l.
    rewrite (segs_full l Hne W). reflexivity.
  - right. split; [reflexivity|].
    unfold l at 1. rewrite (segs_app_start pre bk (conts ++ [b0]) Hk), (segs_app_start pre bk conts Hk).
    rewrite <- app_assoc. f_equal.
    destruct (is_cont b0) eqn:C0.
    + apply segs_start_conts_snoc; try assumption. unfold l in W. cbn [length] in *. rewrite app_length in W. cbn [length] in W. lia.
    + change (bk :: conts ++ [b0]) with ((bk :: conts) ++ [b0]).
      rewrite (segs_app_start (bk :: conts) b0 []) by (rewrite is_start_cont, C0; reflexivity).
      f_equal. rewrite (segs_full [b0]) by (try discriminate; rewrite decode_single_hi by lia; reflexivity).
      rewrite decode_single_hi by lia. reflexivity.
Qed.

Theorem decode_last_rev_spec rs :
  rs <> [] ->
  let d := decode_last_rev rs in
  (1 <= snd d <= 4)%nat /\ (snd d <= length rs)%nat /\
  segs (rev rs) = segs (rev (skipn (snd d) rs)) ++ [d].
Proof.
  intros Hne. destruct rs as [|b0 r]; [congruence|]. cbv zeta. unfold decode_last_rev.
  destruct (b0 <? 128) eqn:A0.
  { cbn [snd skipn length rev]. repeat split; try lia.
    rewrite (segs_app_start (rev r) b0 []) by (unfold is_start, is_cont; lia).
    rewrite segs_ascii by lia. reflexivity. }
  assert (H0 : 128 <= b0) by lia.
  destruct r as [|b1 r1].
  { cbn [snd skipn length rev app]. repeat split; try lia.
    rewrite (segs_full [b0]) by (try discriminate; rewrite decode_single_hi by lia; reflexivity).
    rewrite decode_single_hi by lia. reflexivity. }
  destruct (is_start b1) eqn:S1.
  { rewrite rev_cons2.
    destruct (last_via_start (rev r1) b1 [] b0 S1 eq_refl H0) as [(E & W & Sg)|(E & Sg)];
      cbn [app] in *; rewrite E in *.
    - cbn [length] in W. rewrite W. cbn [skipn length]. repeat split; try lia. exact Sg.
    - unfold RE1. cbn [snd skipn length]. repeat split; try lia. cbn [rev]. exact Sg. }
  assert (C1 : is_cont b1 = true) by (rewrite is_start_cont in S1; destruct (is_cont b1); [reflexivity|discriminate]).
  destruct r1 as [|b2 r2].
  { unfold RE1. cbn [snd skipn length rev app]. repeat split; try lia.
    destruct (is_cont b0) eqn:C0.
    - rewrite !segs_cont_all by (cbn; rewrite ?C1, ?C0; reflexivity). reflexivity.
    - change [b1; b0] with ([b1] ++ [b0]). rewrite (segs_app_start [b1] b0 []) by (rewrite is_start_cont, C0; reflexivity).
      f_equal. rewrite (segs_full [b0]) by (try discriminate; rewrite decode_single_hi by lia; reflexivity).
      rewrite decode_single_hi by lia. reflexivity. }
  destruct (is_start b2) eqn:S2.
  { rewrite rev_cons3.
    destruct (last_via_start (rev r2) b2 [b1] b0 S2 ltac:(cbn; rewrite C1; reflexivity) H0) as [(E & W & Sg)|(E & Sg)];
      cbn [app] in *; rewrite E in *.
    - cbn [length] in W. rewrite W. cbn [skipn length]. repeat split; try lia. exact Sg.
    - unfold RE1. cbn [snd skipn length]. repeat split; try lia. rewrite rev_cons2. exact Sg. }
  assert (C2 : is_cont b2 = true) by (rewrite is_start_cont in S2; destruct (is_cont b2); [reflexivity|discriminate]).
  destruct r2 as [|b3 r3].
  { unfold RE1. cbn [snd skipn length rev app]. repeat split; try lia.
    destruct (is_cont b0) eqn:C0.
    - rewrite !segs_cont_all by (cbn; rewrite ?C2, ?C1, ?C0; reflexivity). reflexivity.
    - change [b2; b1; b0] with ([b2; b1] ++ [b0]). rewrite (segs_app_start [b2; b1] b0 []) by (rewrite is_start_cont, C0; reflexivity).
      f_equal. rewrite (segs_full [b0]) by (try discriminate; rewrite decode_single_hi by lia; reflexivity).
      rewrite decode_single_hi by lia. reflexivity. }
  destruct (is_start b3) eqn:S3.
  { rewrite rev_cons4.
    destruct (last_via_start (rev r3) b3 [b2; b1] b0 S3 ltac:(cbn; rewrite C2, C1; reflexivity) H0) as [(E & W & Sg)|(E & Sg)];
      cbn [app] in *; rewrite E in *.
    - cbn [length] in W. rewrite W. cbn [skipn length]. repeat split; try lia. exact Sg.
    - unfold RE1. cbn [snd skipn length]. repeat split; try lia. rewrite rev_cons3. exact Sg. }
  assert (C3 : is_cont b3 = true) by (rewrite is_start_cont in S3; destruct (is_cont b3); [reflexivity|discriminate]).
  unfold RE1. cbn [snd skipn length]. repeat split; try lia.
  rewrite rev_cons4, rev_cons3.
  destruct (is_cont b0) eqn:C0.
  - apply segs_four_conts; assumption.
  - replace (rev r3 ++ [b3; b2; b1; b0]) with ((rev r3 ++ [b3; b2; b1]) ++ [b0]) by (rewrite <- app_assoc; reflexivity).
    rewrite (segs_app_start (rev r3 ++ [b3; b2; b1]) b0 []) by (rewrite is_start_cont, C0; reflexivity).
    f_equal. rewrite (segs_full [b0]) by (try discriminate; rewrite decode_single_hi by lia; reflexivity).
    rewrite decode_single_hi by lia. reflexivity.
Qed.

(* in the terms of the Go API: DecodeLastRune(s) = (r, size) is the last
   (rune, width) of the forward segmentation and s[:len(s)-size] keeps the rest *)
Theorem decode_last_spec s :
  s <> [] ->
  let d := decode_last s in
  (1 <= snd d <= 4)%nat /\ (snd d <= length s)%nat /\
  segs s = segs (firstn (length s - snd d) s) ++ [d].
Proof.
  intros Hne. unfold decode_last. rewrite <- rev_alt.
  assert (Hr : rev s <> []) by (intros E; apply (f_equal (@rev Z)) in E; rewrite rev_involutive in E; exact (Hne E)).
  destruct (decode_last_rev_spec (rev s) Hr) as (W & L & Sg). cbv zeta in *.
  rewrite rev_length in L. rewrite rev_involutive, skipn_rev, rev_involutive in Sg.
  repeat split; try lia. exact Sg.
Qed.
