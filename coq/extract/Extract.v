(* Extract.v — extraction of the executable model to OCaml.
   Only ExtrOcamlBasic is used (bool, option, unit, list, prod, sumbool
   mapped to OCaml's; andb/orb inlined); Z, N, positive, nat stay the
   extracted inductive datatypes. *)
From Strcase Require Import Base Utf8 Fold Spec FoldTables Impl Impl2 Impl3 Impl4 Impl5 Impl6 Impl7 Kernels.
From Strcase Require X86.
From StrcaseGen Require Consts AsmProg Oracle.
From Coq Require Import Extraction ExtrOcamlBasic.
Extraction Language OCaml.

Definition fold121 : Z -> Z := case_fold T121.

Definition m_case_fold := case_fold T121.
Definition m_fold_map := fold_map T121.
Definition m_fold_map_excl := fold_map_excl T121.
Definition m_to_upper_lower := to_upper_lower T121.
Definition m_lower_str := lower_str.
Definition m_lower_byt := lower_byt.

Definition m_decode := decode.
Definition m_decode_last := decode_last.
Definition m_rune_len := rune_len.
Definition m_valid_rune := valid_rune.
Definition m_encode := encode.
Definition m_rune_count := rune_count.
Definition m_valid_utf8 := valid_utf8.

Definition s_compare := compare fold121.
Definition s_equal_fold := equal_fold fold121.
Definition s_index := index fold121.
Definition s_contains := contains fold121.
Definition s_last_index := last_index fold121.
Definition s_has_prefix := has_prefix fold121.
Definition s_has_suffix := has_suffix fold121.
Definition s_trim_prefix := trim_prefix fold121.
Definition s_cut_prefix := cut_prefix fold121.
Definition s_trim_suffix := trim_suffix fold121.
Definition s_cut_suffix := cut_suffix fold121.
Definition s_count := count fold121.
Definition s_cut := cut fold121.
Definition s_index_rune := index_rune fold121.
Definition s_contains_rune := contains_rune fold121.
Definition s_index_any := index_any fold121.
Definition s_last_index_any := last_index_any fold121.
Definition s_contains_any := contains_any fold121.
Definition s_index_byte := index_byte.
Definition s_last_index_byte := last_index_byte.
Definition s_index_byte_ascii := index_byte_ascii.
Definition s_index_non_ascii := index_non_ascii.
Definition s_contains_non_ascii := contains_non_ascii.
Definition s_k_index_byte := k_index_byte.
Definition s_k_count := k_count.

Definition i_compare_str := Impl.Compare fold121 lower_str Str.
Definition i_compare_byt := Impl.Compare fold121 lower_byt Byt.
Definition i_has_prefix_unicode_str := Impl.hasPrefixUnicode fold121 lower_str Str.
Definition i_has_prefix_unicode_byt := Impl.hasPrefixUnicode fold121 lower_byt Byt.
Definition i_trim_prefix_str := Impl.TrimPrefix fold121 lower_str Str.
Definition i_trim_prefix_byt := Impl.TrimPrefix fold121 lower_byt Byt.
Definition i_cut_prefix_str := Impl.CutPrefix fold121 lower_str Str.
Definition i_cut_prefix_byt := Impl.CutPrefix fold121 lower_byt Byt.
Definition i_has_suffix_unicode_str := Impl2.hasSuffixUnicode fold121 lower_str.
Definition i_has_suffix_unicode_byt := Impl2.hasSuffixUnicode fold121 lower_byt.
Definition i_trim_suffix_str := Impl2.TrimSuffix fold121 lower_str.
Definition i_trim_suffix_byt := Impl2.TrimSuffix fold121 lower_byt.
Definition i_cut_suffix_str := Impl2.CutSuffix fold121 lower_str.
Definition i_cut_suffix_byt := Impl2.CutSuffix fold121 lower_byt.
Definition i_idx (s t : bytes) : res Z := Ok (index fold121 s t).
Definition i_count_str := Impl3.Count i_idx Str.
Definition i_count_byt := Impl3.Count i_idx Byt.
Definition i_cut_str := Impl3.Cut i_idx Str.
Definition i_cut_byt := Impl3.Cut i_idx Byt.
Definition cutover_amd64 (n : Z) : Z := (n + 16) / 8.
Definition cutover_arm64 (n : Z) : Z := 4 + Z.shiftr n 4.
(* three configurations: amd64 (NativeIndex), arm64 cut-over, portable (no native Index) *)
Definition i_index_rune_case_a := Impl4.indexRuneCase true cutover_amd64.
Definition i_index_rune_case_b := Impl4.indexRuneCase true cutover_arm64.
Definition i_index_rune_case_c := Impl4.indexRuneCase false cutover_amd64.
Definition i_index_byte_pair_a := Impl5.indexByte true cutover_amd64.
Definition i_index_byte_pair_c := Impl5.indexByte false cutover_amd64.
Definition i_IndexByte_a := Impl5.IndexByte true cutover_amd64.
Definition i_IndexByte_c := Impl5.IndexByte false cutover_amd64.
Definition i_IndexByteASCII := Impl5.IndexByteASCII.
Definition i_LastIndexByte := Impl5.LastIndexByte.
Definition i_index_rune2_a := Impl5.indexRune2 true cutover_amd64.
Definition i_index_rune_pair_a := Impl5.indexRune true cutover_amd64 (fold_map T121) (to_upper_lower T121).
Definition i_index_rune_pair_c := Impl5.indexRune false cutover_arm64 (fold_map T121) (to_upper_lower T121).
Definition i_IndexRune_a := Impl5.IndexRune true cutover_amd64 (fold_map T121) (to_upper_lower T121).
Definition i_IndexRune_c := Impl5.IndexRune false cutover_arm64 (fold_map T121) (to_upper_lower T121).
Definition i_last_index_rune_str := Impl5.lastIndexRune (fold_map T121) (to_upper_lower T121) Str.
Definition i_last_index_rune_byt := Impl5.lastIndexRune (fold_map T121) (to_upper_lower T121) Byt.
(* Index: amd64 configuration and the portable one; thresholds as regenerated from the source *)
Definition i_Index_str_a := Impl6.Index true cutover_amd64 fold121 lower_str (fold_map T121) (fold_map_excl T121) (to_upper_lower T121)
  StrcaseGen.Consts.str_maxBruteForce StrcaseGen.Consts.str_maxLen StrcaseGen.Consts.str_primeRK StrcaseGen.Consts.str_nativeMax StrcaseGen.Oracle.rt_maxlen_min Str.
Definition i_Index_byt_a := Impl6.Index true cutover_amd64 fold121 lower_byt (fold_map T121) (fold_map_excl T121) (to_upper_lower T121)
  StrcaseGen.Consts.byt_maxBruteForce StrcaseGen.Consts.byt_maxLen StrcaseGen.Consts.byt_primeRK StrcaseGen.Consts.byt_nativeMax StrcaseGen.Oracle.rt_maxlen_min Byt.
Definition i_Index_str_c := Impl6.Index false cutover_arm64 fold121 lower_str (fold_map T121) (fold_map_excl T121) (to_upper_lower T121)
  StrcaseGen.Consts.str_maxBruteForce StrcaseGen.Consts.str_maxLen StrcaseGen.Consts.str_primeRK StrcaseGen.Consts.str_nativeMax StrcaseGen.Oracle.rt_maxlen_min Str.
Definition i_Index_byt_c := Impl6.Index false cutover_arm64 fold121 lower_byt (fold_map T121) (fold_map_excl T121) (to_upper_lower T121)
  StrcaseGen.Consts.byt_maxBruteForce StrcaseGen.Consts.byt_maxLen StrcaseGen.Consts.byt_primeRK StrcaseGen.Consts.byt_nativeMax StrcaseGen.Oracle.rt_maxlen_min Byt.
Definition i_brute_str := Impl6.bruteForceIndexUnicode fold121 lower_str (fold_map_excl T121) (to_upper_lower T121) Str.
Definition i_brute_byt := Impl6.bruteForceIndexUnicode fold121 lower_byt (fold_map_excl T121) (to_upper_lower T121) Byt.
Definition i_rk_str := Impl6.indexRabinKarpUnicode fold121 lower_str StrcaseGen.Consts.str_primeRK Str.
Definition i_rk_byt := Impl6.indexRabinKarpUnicode fold121 lower_byt StrcaseGen.Consts.byt_primeRK Byt.
Definition i_LastIndex_str := Impl7.LastIndex fold121 lower_str (fold_map T121) (to_upper_lower T121) StrcaseGen.Consts.str_primeRK Str.
Definition i_LastIndex_byt := Impl7.LastIndex fold121 lower_byt (fold_map T121) (to_upper_lower T121) StrcaseGen.Consts.byt_primeRK Byt.
Definition i_rkrev_str := Impl7.indexRabinKarpRevUnicode fold121 lower_str StrcaseGen.Consts.str_primeRK.
Definition i_IndexAny_a := Impl7.IndexAny true cutover_amd64 (fold_map T121) (to_upper_lower T121).
Definition i_IndexAny_c := Impl7.IndexAny false cutover_arm64 (fold_map T121) (to_upper_lower T121).
Definition i_LastIndexAny_a := Impl7.LastIndexAny true cutover_amd64 (fold_map T121) (to_upper_lower T121).
Definition i_LastIndexAny_c := Impl7.LastIndexAny false cutover_arm64 (fold_map T121) (to_upper_lower T121).
Definition i_contains_kelvin := Impl.contains_kelvin.
Definition i_index_byte_generic := index_byte_generic.
Definition i_count_generic := count_generic.
Definition i_count_simd := count_simd.
Definition i_index_non_ascii_generic := index_non_ascii_generic.

(* the machine model of X86.v run on the instruction lists regenerated from the .s files (the go1.22+ file set):
   validated against the real kernels on the harness's kernel cases (argument placed at address [a], every byte
   around it = [junkv], registers preloaded with [regv]) *)
Inductive xres := XDone (r : option Z) | XDelegated | XFault | XFuel.
Definition x_kernel (P : list X86.instr) (entry : nat) (a : Z) (s : bytes) (junkv regv : Z) (avx2 popcnt : bool) (c : Z) (fuel : nat)
  : xres :=
  match X86.run a s (fun _ => junkv) 64 avx2 popcnt c P fuel entry (X86.init (fun _ => regv)) with
  | X86.Done r => XDone r
  | X86.Delegated => XDelegated
  | X86.Fault => XFault
  | X86.Running _ _ => XFuel
  end.
Definition x_index_non_ascii_str := x_kernel StrcaseGen.AsmProg.prog_index_non_ascii_go122_amd64 StrcaseGen.AsmProg.entry_index_non_ascii_go122_amd64_IndexNonASCII.
Definition x_index_non_ascii_byt := x_kernel StrcaseGen.AsmProg.prog_index_non_ascii_go122_amd64 StrcaseGen.AsmProg.entry_index_non_ascii_go122_amd64_IndexByteNonASCII.
Definition x_index_byte_byt := x_kernel StrcaseGen.AsmProg.prog_indexbyte_go122_amd64 StrcaseGen.AsmProg.entry_indexbyte_go122_amd64_IndexByte.
Definition x_index_byte_str := x_kernel StrcaseGen.AsmProg.prog_indexbyte_go122_amd64 StrcaseGen.AsmProg.entry_indexbyte_go122_amd64_IndexByteString.
Definition x_count_byt := x_kernel StrcaseGen.AsmProg.prog_count_go122_amd64 StrcaseGen.AsmProg.entry_count_go122_amd64_Count.
Definition x_count_str := x_kernel StrcaseGen.AsmProg.prog_count_go122_amd64 StrcaseGen.AsmProg.entry_count_go122_amd64_CountString.
Definition x_nat_of_z := Z.to_nat.

Extraction "model.ml"
  i_compare_str i_compare_byt i_has_prefix_unicode_str i_has_prefix_unicode_byt
  i_trim_prefix_str i_trim_prefix_byt i_cut_prefix_str i_cut_prefix_byt
  i_has_suffix_unicode_str i_has_suffix_unicode_byt i_trim_suffix_str i_trim_suffix_byt i_cut_suffix_str i_cut_suffix_byt i_count_str i_count_byt i_cut_str i_cut_byt
  i_index_rune_case_a i_index_rune_case_b i_index_rune_case_c i_index_byte_pair_a i_index_byte_pair_c
  i_IndexByte_a i_IndexByte_c i_IndexByteASCII i_LastIndexByte i_index_rune2_a i_index_rune_pair_a i_index_rune_pair_c
  i_IndexRune_a i_IndexRune_c i_last_index_rune_str i_last_index_rune_byt
  i_Index_str_a i_Index_byt_a i_Index_str_c i_Index_byt_c i_brute_str i_brute_byt i_rk_str i_rk_byt
  i_LastIndex_str i_LastIndex_byt i_rkrev_str i_IndexAny_a i_IndexAny_c i_LastIndexAny_a i_LastIndexAny_c i_contains_kelvin i_index_byte_generic i_count_generic i_count_simd i_index_non_ascii_generic
  m_case_fold m_fold_map m_fold_map_excl m_to_upper_lower m_lower_str m_lower_byt
  m_decode m_decode_last m_rune_len m_valid_rune m_encode m_rune_count m_valid_utf8
  s_compare s_equal_fold s_index s_contains s_last_index s_has_prefix s_has_suffix
  s_trim_prefix s_cut_prefix s_trim_suffix s_cut_suffix s_count s_cut
  s_index_rune s_contains_rune s_index_any s_last_index_any s_contains_any
  s_index_byte s_last_index_byte s_index_byte_ascii s_index_non_ascii s_contains_non_ascii
  s_k_index_byte s_k_count
  x_index_non_ascii_str x_index_non_ascii_byt x_index_byte_byt x_index_byte_str x_count_byt x_count_str x_nat_of_z.
