"""vlib — the logic behind ./check (see DESIGN.md section 5)."""
import sys, os, json, subprocess, time, hashlib, fcntl, re, shutil, glob, concurrent.futures

VERIF = os.path.dirname(os.path.dirname(os.path.abspath(__file__)))
REPO = os.environ.get("VERIF_REPO", "/repo")
BUILD = os.path.join(VERIF, "build")
COQ = os.path.join(VERIF, "coq")
NPROC = os.cpu_count() or 4

GOENV = dict(os.environ, GOFLAGS="-mod=mod", GOPROXY="off", GOSUMDB="off", GOTOOLCHAIN="local",
             CGO_ENABLED="0")

PROPS = ["C%02d" % i for i in range(1, 21)]


class Infra(Exception):
    pass


def log(msg):
    sys.stderr.write("[check] %s\n" % msg)
    sys.stderr.flush()


def run(cmd, cwd=None, env=None, timeout=None, check=False, stdin=None):
    t0 = time.time()
    try:
        p = subprocess.run(cmd, cwd=cwd, env=env, timeout=timeout, stdout=subprocess.PIPE,
                           stderr=subprocess.STDOUT, input=stdin)
    except subprocess.TimeoutExpired as e:
        out = (e.stdout or b"").decode("utf-8", "replace")
        return 124, out + "\n[timeout after %ss]" % timeout, time.time() - t0
    out = p.stdout.decode("utf-8", "replace")
    if check and p.returncode != 0:
        raise Infra("command failed (%d): %s\n%s" % (p.returncode, " ".join(map(str, cmd)), out[-4000:]))
    return p.returncode, out, time.time() - t0


def sha(path):
    h = hashlib.sha256()
    with open(path, "rb") as f:
        h.update(f.read())
    return h.hexdigest()


def newer(src, dst):
    return (not os.path.exists(dst)) or os.path.getmtime(src) > os.path.getmtime(dst)


def any_newer(srcs, dst):
    return any(newer(s, dst) for s in srcs)


class Lock:
    def __init__(self, path):
        self.path = path

    def __enter__(self):
        os.makedirs(os.path.dirname(self.path), exist_ok=True)
        self.f = open(self.path, "w")
        fcntl.flock(self.f, fcntl.LOCK_EX)
        return self

    def __exit__(self, *a):
        fcntl.flock(self.f, fcntl.LOCK_UN)
        self.f.close()


# ----------------------------------------------------------------------------
# build

def coq_files():
    """files listed in _CoqProject"""
    out = []
    for line in open(os.path.join(COQ, "_CoqProject")):
        line = line.strip()
        if line.endswith(".v"):
            out.append(line)
    return out


def build_all(need_coq=True):
    """(Re)build everything from /repo's working tree.  Returns a status dict."""
    st = {"coq_ok": True, "coq_failed": [], "coq_log": "", "internals": True, "times": {}}
    os.makedirs(os.path.join(BUILD, "bin"), exist_ok=True)
    with Lock(os.path.join(BUILD, ".lock")):
        # 1. translator
        gen_bin = os.path.join(BUILD, "bin", "gen")
        gen_src = glob.glob(os.path.join(VERIF, "tools", "gen", "*.go"))
        if any_newer(gen_src, gen_bin):
            run(["go", "build", "-o", gen_bin, "./gen"], cwd=os.path.join(VERIF, "tools"), env=GOENV, check=True)
        fx_bin = os.path.join(BUILD, "bin", "effects")
        fx_src = glob.glob(os.path.join(VERIF, "tools", "effects", "*.go"))
        if fx_src and any_newer(fx_src, fx_bin):
            run(["go", "build", "-o", fx_bin, "./effects"], cwd=os.path.join(VERIF, "tools"), env=GOENV, check=True)
        # 2. regenerate the generated model parts from the working tree
        t0 = time.time()
        rc, out, _ = run([gen_bin, "-repo", REPO, "-out", os.path.join(COQ, "gen")])
        st["gen_rc"], st["gen_out"] = rc, out
        if rc != 0:
            st["coq_ok"] = False
            st["coq_failed"].append("translator T1 (tools/gen): " + out.strip()[-500:])
        if fx_src and os.path.exists(fx_bin):
            rc, out, _ = run([fx_bin, "-repo", REPO, "-out", os.path.join(COQ, "gen")], cwd=REPO, env=GOENV, timeout=300)
            st["effects_rc"], st["effects_out"] = rc, out
            if rc != 0:
                st["coq_ok"] = False
                st["coq_failed"].append("translator T3 (tools/effects): " + out.strip()[-500:])
        asm_tool = os.path.join(VERIF, "tools", "asm2coq.py")
        if os.path.exists(asm_tool):
            rc, out, _ = run([sys.executable, asm_tool, "--repo", REPO, "--out", os.path.join(COQ, "gen")], timeout=120)
            st["asm_rc"], st["asm_out"] = rc, out
            if rc != 0:
                st["coq_ok"] = False
                st["coq_failed"].append("translator T2 (tools/asm2coq.py): " + out.strip()[-500:])
        prog_tool = os.path.join(VERIF, "tools", "asm2prog.py")
        if os.path.exists(prog_tool):
            rc, out, _ = run([sys.executable, prog_tool, "--repo", REPO, "--out", os.path.join(COQ, "gen")], timeout=120)
            st["asmprog_rc"], st["asmprog_out"] = rc, out
            if rc != 0:
                st["coq_ok"] = False
                st["coq_failed"].append("translator T2 (tools/asm2prog.py): " + out.strip()[-500:])
        st["times"]["gen"] = time.time() - t0
        # 3. proofs
        if need_coq:
            t0 = time.time()
            mk = os.path.join(COQ, "Makefile")
            if newer(os.path.join(COQ, "_CoqProject"), mk):
                run(["coq_makefile", "-f", "_CoqProject", "-o", "Makefile"], cwd=COQ, check=True)
            # every coqc under a memory limit (a runaway tactic must not take the machine down)
            rc, out, _ = run(["bash", "-c", "ulimit -v 24000000; exec make -k -j%d" % NPROC], cwd=COQ, timeout=3000)
            st["coq_log"] = out
            if rc != 0:
                st["coq_ok"] = False
                for m in re.finditer(r'File "\./([^"]+)", line (\d+)[^\n]*\n((?:.*\n){0,12}?)(?=COQC|make|File|\Z)', out):
                    st["coq_failed"].append("%s:%s: %s" % (m.group(1), m.group(2), " ".join(m.group(3).split())[:600]))
                if not st["coq_failed"]:
                    st["coq_failed"].append(out[-1500:])
            st["times"]["coq"] = time.time() - t0
            # 4. extracted model -> OCaml driver
            t0 = time.time()
            odir = os.path.join(BUILD, "ocaml")
            os.makedirs(odir, exist_ok=True)
            model = os.path.join(COQ, "model.ml")
            if not os.path.exists(model):
                raise Infra("extraction produced no model.ml:\n" + out[-3000:])
            srcs = [model, os.path.join(COQ, "model.mli")] + glob.glob(os.path.join(VERIF, "ocaml", "*.ml"))
            stamp = os.path.join(odir, "stamp")
            key = "".join(sha(s) for s in sorted(srcs))
            if not os.path.exists(os.path.join(odir, "driver")) or not os.path.exists(stamp) or open(stamp).read() != key:
                for s in srcs:
                    shutil.copy(s, odir)
                run(["ocamlfind", "ocamlopt", "-O2", "-w", "-a", "model.mli", "model.ml", "util.ml",
                     "impl_dispatch.ml", "driver.ml", "-o", "driver"], cwd=odir, check=True)
                open(stamp, "w").write(key)
            st["times"]["ocaml"] = time.time() - t0
        # 5. harness against the working tree, hooks on
        t0 = time.time()
        hdir = os.path.join(VERIF, "harness")
        gen_simdpkg(hdir, st)
        shutil.copy(os.path.join(REPO, "go.sum"), os.path.join(hdir, "go.sum"))
        hb = os.path.join(BUILD, "bin", "harness")
        rc, out, _ = run(["go", "build", "-tags", "verif,verif_internals", "-o", hb, "."], cwd=hdir, env=GOENV, timeout=600)
        if rc != 0:
            st["internals"] = False
            st["internals_err"] = out[-1500:]
            rc, out, _ = run(["go", "build", "-tags", "verif", "-o", hb, "."], cwd=hdir, env=GOENV, timeout=600)
            if rc != 0:
                raise Infra("harness does not build against %s:\n%s" % (REPO, out[-3000:]))
        st["times"]["harness"] = time.time() - t0
    return st


def gen_simdpkg(hdir, st):
    """the standard-library based kernels (*_simd.go: s390x/ppc64/wasm) compiled on the host:
    copied from the working tree with the build constraint removed"""
    d = os.path.join(hdir, "simdpkg")
    os.makedirs(d, exist_ok=True)
    ok = True
    out = {}
    for name in ("count_simd.go", "indexbyte_simd.go"):
        src = os.path.join(REPO, "internal", "bytealg", name)
        if not os.path.exists(src):
            ok = False
            break
        body = open(src).read()
        body = re.sub(r'^//go:build.*\n', '', body, flags=re.M)
        body = re.sub(r'^// \+build.*\n', '', body, flags=re.M)
        body = re.sub(r'^package bytealg', 'package simdpkg', body, flags=re.M)
        out[name] = body
    if ok:
        out["available.go"] = "package simdpkg\n\nconst Available = true\n"
    else:
        out = {"available.go": "package simdpkg\n\nconst Available = false\n\n"
               "func Count(b []byte, c byte) int { return 0 }\nfunc CountString(s string, c byte) int { return 0 }\n"
               "func IndexByte(b []byte, c byte) int { return 0 }\nfunc IndexByteString(s string, c byte) int { return 0 }\n"}
    for f in os.listdir(d):
        if f not in out:
            os.remove(os.path.join(d, f))
    for f, body in out.items():
        p = os.path.join(d, f)
        if not os.path.exists(p) or open(p).read() != body:
            open(p, "w").write(body)
    st["simdpkg"] = ok


def build_variant(name, env_extra, gobin="go"):
    """harness built for another configuration (GOAMD64=v3, GOARCH=386, another installed toolchain)"""
    hdir = os.path.join(VERIF, "harness")
    hb = os.path.join(BUILD, "bin", "harness_" + name)
    env = dict(GOENV)
    env.update(env_extra)
    with Lock(os.path.join(BUILD, ".lock")):
        rc, out, _ = run([gobin, "build", "-tags", "verif,verif_internals", "-o", hb, "."], cwd=hdir, env=env, timeout=900)
        if rc != 0:
            rc, out, _ = run([gobin, "build", "-tags", "verif", "-o", hb, "."], cwd=hdir, env=env, timeout=900)
            if rc != 0:
                raise Infra("harness variant %s does not build:\n%s" % (name, out[-3000:]))
    return hb


def vo_up_to_date(vfile):
    """is coq/<vfile>o present and not out of date w.r.t. everything it depends on"""
    vo = vfile + "o"
    if not os.path.exists(os.path.join(COQ, vo)):
        return False
    rc, out, _ = run(["make", "-q", vo], cwd=COQ, timeout=120)
    return rc == 0


# ----------------------------------------------------------------------------
# running the harness and the extracted model

def run_harness(prop, tier, seed, outdir, extra_env=None, binary=None, args=None, timeout=None):
    os.makedirs(outdir, exist_ok=True)
    for f in ("cases.tsv", "stats.json", "model.out"):
        p = os.path.join(outdir, f)
        if os.path.exists(p):
            os.remove(p)
    env = dict(os.environ)
    if extra_env:
        env.update(extra_env)
    cmd = [binary or os.path.join(BUILD, "bin", "harness"), "-prop", prop, "-seed", str(seed), "-tier", tier, "-out", outdir]
    if args:
        cmd += args
    rc, out, wall = run(cmd, env=env, timeout=timeout or (3400 if tier == "thorough" else 1500))
    sp = os.path.join(outdir, "stats.json")
    if not os.path.exists(sp) and rc not in (0, 124) and "-trace" not in cmd:
        # the process died where no recover reaches (fatal error: stack overflow, out of memory, a fault): run it
        # again with every case written before it is executed; the last line is the input that kills it
        tr = os.path.join(outdir, "trace.tsv")
        rc2, out2, _ = run(cmd + ["-trace", tr], env=env, timeout=timeout or (3400 if tier == "thorough" else 1500))
        last = ""
        if os.path.exists(tr):
            with open(tr, "rb") as f:
                try:
                    f.seek(-200000, 2)
                except OSError:
                    f.seek(0)
                lines = f.read().decode("utf-8", "replace").split("\n")
            lines = [l for l in lines if l.strip()]
            last = lines[-1] if lines else ""
            os.remove(tr)
        if not os.path.exists(sp):
            msg = [l for l in (out2 or out).split("\n") if l.startswith(("fatal error", "panic:", "runtime:", "SIG", "unexpected fault"))][:3]
            stats = {"findings": [{"kind": "fatal", "fn": last.split("\t")[0] if last else None, "case": last or None,
                                   "detail": "the process executing the library died (exit %s): %s" % (rc2, " | ".join(msg) or (out2 or out)[-300:])}],
                     "evaluations": 0, "notes": ["harness died; input located by a traced re-run"], "_rc": 3, "_out": (out2 or out)[-2000:]}
            # the cases written before the death are still compared
            return stats
    if not os.path.exists(sp):
        raise Infra("harness produced no stats (rc=%s):\n%s" % (rc, out[-3000:]))
    stats = json.load(open(sp))
    stats["_rc"] = rc
    stats["_out"] = out[-2000:]
    return stats


def run_model(lines):
    """run the extracted model on case lines (list of str); returns list of output lines"""
    if not lines:
        return []
    drv = os.path.join(BUILD, "ocaml", "driver")
    n = min(NPROC, max(1, len(lines) // 200))
    chunks = [lines[i::n] for i in range(n)]

    def big_stack():
        # the extracted functions recurse over the argument lists: a megabyte-long haystack needs a deep stack
        import resource
        resource.setrlimit(resource.RLIMIT_STACK, (resource.RLIM_INFINITY, resource.RLIM_INFINITY))

    def work(ch):
        p = subprocess.run([drv], input=("\n".join(ch) + "\n").encode(), stdout=subprocess.PIPE, stderr=subprocess.PIPE, timeout=3000,
                           preexec_fn=big_stack)
        if p.returncode != 0 and len(ch) > 1:
            # one case the model cannot evaluate must not take the others down: case by case, the culprit answers "?"
            out = []
            for one in ch:
                q = subprocess.run([drv], input=(one + "\n").encode(), stdout=subprocess.PIPE, stderr=subprocess.PIPE, timeout=3000,
                                   preexec_fn=big_stack)
                out.append(q.stdout.decode().split("\n")[0] if q.returncode == 0 else "S=?")
            return out
        if p.returncode != 0:
            return ["S=?"]
        o = p.stdout.decode().split("\n")
        if o and o[-1] == "":
            o.pop()
        if len(o) != len(ch):
            raise Infra("model driver returned %d lines for %d cases" % (len(o), len(ch)))
        return o

    with concurrent.futures.ThreadPoolExecutor(max_workers=n) as ex:
        outs = list(ex.map(work, chunks))
    res = [None] * len(lines)
    for k, o in enumerate(outs):
        for j, v in enumerate(o):
            res[k + j * n] = v
    return res


def parse_model(out):
    d = {}
    for f in out.split("\t"):
        if "=" in f:
            k, v = f.split("=", 1)
            d[k] = v
    return d


def compare_with_model(outdir):
    """cases.tsv: line = case fields, '=', strcase obs, bytcase obs, go-ref obs.
    Returns (n_cases, mismatches[list of dict], ref_disagreements)"""
    path = os.path.join(outdir, "cases.tsv")
    lines = [l.rstrip("\n") for l in open(path)] if os.path.exists(path) else []
    cases = []
    for l in lines:
        f = l.split("\t")
        if "=" not in f or len(f) < f.index("=") + 3:
            continue   # a line cut short when the harness was stopped (watchdog, timeout): not a case
        k = f.index("=")
        cases.append(("\t".join(f[:k]), f[k + 1:]))
    outs = run_model([c[0] for c in cases])
    mism, refdis = [], []
    for (case, obs), mo in zip(cases, outs):
        m = parse_model(mo)
        spec = m.get("S")
        s_obs, b_obs = obs[0], obs[1]
        ref = obs[2] if len(obs) > 2 else ""
        if spec == "?" and ref and not case.startswith(("i.", "k.", "u.", "t.", "x.")):
            # an exported function on an input the extracted model could not evaluate (a haystack too long for its
            # recursion): decided against the harness's Go reference
            if s_obs != ref or b_obs != ref:
                mism.append({"case": case, "strcase": s_obs, "bytcase": b_obs, "spec": ref, "impl_model": None, "go_ref": ref,
                             "note": "expected value from the Go reference: the extracted model could not evaluate this input"})
            continue
        if spec is None or spec == "?":
            # an unexported strategy: compared with the structure-faithful model only; a
            # difference is a diagnostic (localises a fault / a refactoring), never a verdict
            im = m.get("I")
            if im is not None and "|" in im:
                a, b = im.split("|", 1)
                if s_obs != a or b_obs != b:
                    refdis.append({"case": case, "strcase": s_obs, "bytcase": b_obs, "impl_model": im,
                                   "kind": "internal strategy != Impl model"})
            continue
        if s_obs != spec or b_obs != spec:
            mism.append({"case": case, "strcase": s_obs, "bytcase": b_obs, "spec": spec, "impl_model": m.get("I"), "go_ref": ref})
        elif "I" in m and m["I"] != spec and "|" not in m["I"]:
            # the structure-faithful model disagrees with Spec while the code agrees:
            # a defect of the model (machinery), never a violation
            refdis.append({"case": case, "spec": spec, "impl_model": m["I"], "kind": "Impl-model != Spec"})
        if ref and ref != spec:
            refdis.append({"case": case, "spec": spec, "go_ref": ref, "kind": "Go reference != Spec"})
    return len(cases), mism, refdis


def model_on(case_lines):
    outs = run_model(case_lines)
    return [parse_model(o) for o in outs]
