"""Instruction-set probe (part of C14): which instructions does a call execute when the CPU-feature flags say
"no AVX2"?

GODEBUG=cpu.avx2=off makes the feature flags false but leaves the processor as it is, so code that executes an
AVX/AVX2 instruction without looking at the flag returns the right answer here and dies with SIGILL on a processor
that really has no AVX2.  The probe runs the harness's replay of a list of calls under gdb with a breakpoint on every
VEX-encoded instruction of the byte-search kernels (the library's own assembly and the runtime's internal/bytealg,
which the library enters through go:linkname) and reports each one that is reached, with the call chain.

  probe(binary, lines, godebug, prefixes) -> (hits, info)     hits: [{"case", "address", "insn", "frames"}]
A sanity run with the features on must reach at least one of the breakpoints; if it does not (no gdb, ptrace
forbidden, ...) the probe reports itself unavailable and decides nothing.
"""
import os, re, subprocess, tempfile

from vlib import BUILD, VERIF, GOENV, run


def kernel_ranges(binary):
    """[first address, last address, symbol] of the assembly bodies under */internal/bytealg/*.s (the library's and
    the runtime's)"""
    rc, out, _ = run(["go", "tool", "objdump", "-s", "(?i)body|bytealg", binary], env=GOENV, timeout=120)
    if rc != 0:
        return []
    ranges, cur = [], None
    for line in out.split("\n"):
        if line.startswith("TEXT "):
            f = line.split()
            cur = None
            if len(f) > 2 and "/internal/bytealg/" in f[2] and f[2].endswith(".s"):
                cur = [None, None, f[1].replace("(SB)", "") + "@" + "/".join(f[2].split("/")[-3:])]
                ranges.append(cur)
            continue
        if cur is None:
            continue
        m = re.match(r"\s+\S+\t(0x[0-9a-f]+)\t", line)
        if m:
            if cur[0] is None:
                cur[0] = m.group(1)
            cur[1] = m.group(1)
    return [r for r in ranges if r[0]]


def _gdb(binary, lines, godebug, ranges, prefixes):
    os.makedirs(os.path.join(BUILD, "run"), exist_ok=True)
    with tempfile.TemporaryDirectory(dir=os.path.join(BUILD, "run")) as d:
        cf, af = os.path.join(d, "cases.tsv"), os.path.join(d, "ranges")
        open(cf, "w").write("\n".join(lines) + "\n")
        open(af, "w").write("\n".join(" ".join(r) for r in ranges) + "\n")
        env = dict(os.environ)
        env.update(GOENV)
        env["ISA_RANGES"] = af
        env["ISA_PREFIXES"] = prefixes
        if godebug:
            env["GODEBUG"] = godebug
        else:
            env.pop("GODEBUG", None)
        rc, out, _ = run(["gdb", "-q", "-nx", "-batch", "-x", os.path.join(VERIF, "tools", "gdb_isa.py"), "--args", binary,
                          "-replayfile", cf], env=env, timeout=300)
    return rc, out


def parse(out, lines):
    hits, cur, seen, where = [], None, 0, {}
    for l in out.split("\n"):
        if l.startswith("ISABP\t"):
            f = l.split("\t")
            where[f[1]] = f[2]
            continue
        if l.startswith("CASE "):
            try:
                cur = int(l.split()[1])
                seen += 1
            except ValueError:
                pass
        elif l.startswith("ISAHIT\t"):
            f = l.split("\t")
            a = f[1].lstrip("*")
            hits.append({"case": lines[cur] if cur is not None and cur < len(lines) else None, "address": a,
                         "where": where.get(a, ""), "insn": f[2] if len(f) > 2 else "", "frames": f[3] if len(f) > 3 else ""})
    return hits, seen, len(where)


def probe(binary, lines, godebug, prefixes="v"):
    info = {"available": False, "cases": len(lines), "godebug": godebug, "mnemonic_prefixes": prefixes}
    try:
        subprocess.run(["gdb", "--version"], stdout=subprocess.DEVNULL, stderr=subprocess.DEVNULL, timeout=20)
    except Exception:
        info["reason"] = "gdb not found"
        return [], info
    ranges = kernel_ranges(binary)
    info["kernel_bodies"] = len(ranges)
    if not ranges:
        info["reason"] = "no assembly body of internal/bytealg found in this build (not an amd64 build?)"
        return [], info
    # sanity: with the features on, the kernels' AVX2 loops are reached
    rc, out = _gdb(binary, lines, "", ranges, prefixes)
    sh, seen, nbp = parse(out, lines)
    info["breakpoints"] = nbp
    info["sanity_hits_with_features_on"] = len(sh)
    if not sh or seen != len(lines):
        info["reason"] = "sanity run reached no breakpoint or did not finish (rc %s, %d/%d cases): %s" % (rc, seen, len(lines), out[-300:])
        return [], info
    rc, out = _gdb(binary, lines, godebug, ranges, prefixes)
    hits, seen, _ = parse(out, lines)
    if seen != len(lines):
        info["reason"] = "probe run did not finish (rc %s, %d/%d cases): %s" % (rc, seen, len(lines), out[-300:])
        return [], info
    info["available"] = True
    info["hits"] = len(hits)
    return hits, info


def hx(b):
    return b.hex() if b else "-"


def probe_cases():
    """calls that reach every assembly body: non-letter needles of every length around the native limits (31/32 and
    63/64), letter needles, single code points with many near misses (IndexByte cut-over into the native Index), and
    long inputs for the library's own three kernels"""
    lines = []
    nl = b"0123456789-+*/=()[]{}<>!?.,;:'#%&|~^$@_\\\"` \t"
    hay = bytes((nl[(i * 7) % len(nl)]) for i in range(301))
    for n in (2, 3, 4, 8, 15, 16, 17, 30, 31, 32, 33, 40, 62, 63, 64, 65):
        needle = bytes(nl[(i * 5 + 3) % len(nl)] for i in range(n))
        s = hay + needle + hay[:7]
        for fn in ("Index", "Contains", "LastIndex", "Count", "Cut", "HasSuffix"):
            lines.append("%s\t%s\t%s" % (fn, hx(s), hx(needle)))
        letters = bytes(b"abcdefghijklmnopqrstuvwxyz"[(i * 3) % 26] for i in range(n))
        lines.append("Index\t%s\t%s" % (hx(hay + letters.upper() + hay), hx(letters)))
        lines.append("EqualFold\t%s\t%s" % (hx(letters * 9), hx(letters.upper() * 9)))
        lines.append("Compare\t%s\t%s" % (hx(letters * 9), hx(letters.upper() * 9)))
    # near misses on the last byte of a 2-, 3- and 4-byte code point
    for r, miss in (("é", "ĩ"), ("世", "丗"), ("𐐀", "𐑀")):
        s = (miss * 120 + r).encode()
        for fn in ("IndexRune", "ContainsRune"):
            lines.append("%s\t%s\t%d" % (fn, hx(s), ord(r)))
        lines.append("Index\t%s\t%s" % (hx(s), hx(r.encode())))
        lines.append("LastIndex\t%s\t%s" % (hx(s), hx(r.encode())))
        lines.append("IndexAny\t%s\t%s" % (hx(s), hx((r + "x").encode())))
    long = bytes(b"abcdefgh"[i % 8] for i in range(700))
    for fn, arg in (("IndexByte", "122"), ("LastIndexByte", "122"), ("IndexByte", "90"), ("IndexRune", "122"),
                    ("IndexNonASCII", None), ("ContainsNonASCII", None)):
        lines.append("\t".join([fn, hx(long)] + ([arg] if arg else [])))
    lines.append("Count\t%s\t%s" % (hx(long), hx(b"h")))
    lines.append("Count\t%s\t%s" % (hx(long), hx(b"H")))
    for k, c in (("k.count", 104), ("k.count", 72), ("k.index_byte", 122), ("k.index_byte", 90), ("k.index_non_ascii", 0)):
        lines.append("%s\t%s\t%d" % (k, hx(long), c))
    return lines
