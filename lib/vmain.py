"""vmain — property checks, verdicts, evidence (see DESIGN.md section 5)."""
import sys, os, json, time, hashlib, re, glob, subprocess
from vlib import *  # noqa
import vlib

KNOWN_PATH = os.path.join(VERIF, "known_findings.json")
REPLAYS = os.path.join(VERIF, "replays")
EVID = os.path.join(VERIF, "evidence")

TRUSTED_COMMON = [
    "Coq 8.16.1 kernel and its vm_compute machine (no native_compute)",
    "translators tools/gen (T1 tables/constants, T4 toolchain oracle dump)",
    "extraction with ExtrOcamlBasic only (Extract Inductive bool/option/unit/list/prod/sumbool/sumor, "
    "Extract Inlined Constant andb/orb/negb...; Z, positive, nat stay extracted datatypes), ocaml/driver.ml",
    "Go harness (generator, observation, comparison), ./check driver",
    "modelled, not verified: unicode/utf8 (Utf8.v, validated against the real package), Go slice/range semantics, "
    "strings/bytes helpers called by the library",
]
TRUSTED_EXTRA = {
    "C14": ["translator tools/asm2prog.py (T2) and the x86-64 instruction semantics of coq/theories/X86.v (modelled, validated under C13); "
            "tools/mkv3.py only writes proof scripts, which Coq re-checks"],
    "C13": ["translator tools/asm2prog.py (T2: Plan-9 amd64 assembly -> instruction lists, regenerated every run)",
            "modelled, not verified: the x86-64 instruction semantics of coq/theories/X86.v (registers < 2^64 with wrap = Fault, "
            "flags known/undefined, 32-lane vector registers, page-granular readable memory around the argument, single result "
            "store), validated on every run against the real kernels (x86_model_validation)"],
}

# per-property: level, how decided
META = {p: {"level": "proof"} for p in PROPS}
META["C05"]["level"] = "other"
META["C18"]["level"] = "other"
META["C13"]["level"] = "proof"
META["C14"]["level"] = "proof"


def load_known():
    if not os.path.exists(KNOWN_PATH):
        return {"fixed": [], "known": []}
    return json.load(open(KNOWN_PATH))


def supporting_theorems(pid):
    """Properties/<pid>x.v (optional): theorems that support the property but are not part of its own
    obligation set (kept apart so that the obligation set does not depend on more than it needs)"""
    vf = os.path.join(COQ, "theories", "Properties", pid + "x.v")
    if not os.path.exists(vf):
        return {}
    names = re.findall(r'^(?:Theorem|Corollary)\s+(\w+)', open(vf).read(), re.M)
    return {"supporting_theorems": names, "supporting_file": "coq/theories/Properties/%sx.v" % pid,
            "supporting_checked": vo_up_to_date("theories/Properties/%sx.v" % pid),
            "supporting_assumptions": " ".join(assumptions_of(pid + "x", "").split())[:300]}


def coqchk(pid):
    """thorough tier: re-check the compiled property file and everything it depends on with Coq's
    independent checker and collect the axioms it reports (cached per state of the .vo files)"""
    vos = sorted(glob.glob(os.path.join(COQ, "theories", "**", "*.vo"), recursive=True) +
                 glob.glob(os.path.join(COQ, "gen", "*.vo")))
    h = hashlib.sha256()
    for v in vos:
        stt = os.stat(v)
        h.update(("%s:%d:%d;" % (v, stt.st_size, int(stt.st_mtime))).encode())
    d = os.path.join(BUILD, "coqchk")
    os.makedirs(d, exist_ok=True)
    # one run covers every property file (their dependency closures overlap almost entirely)
    cache = os.path.join(d, "all-%s.json" % h.hexdigest()[:16])
    if os.path.exists(cache):
        return json.load(open(cache))
    t0 = time.time()
    mods = ["Strcase.Properties." + os.path.basename(v)[:-3]
            for v in sorted(glob.glob(os.path.join(COQ, "theories", "Properties", "C*.vo")))]
    rc, out, _ = run(["coqchk", "-silent", "-o", "-Q", "theories", "Strcase", "-Q", "gen", "StrcaseGen"] + mods,
                     cwd=COQ, timeout=4 * 3600)
    m = re.search(r'\* Axioms:(.*?)\n\s*\n\* Constants', out, re.S)
    res = {"rc": rc, "seconds": round(time.time() - t0), "axioms": " ".join((m.group(1) if m else "?").split()),
           "modules": mods, "tail": "" if rc == 0 else out[-800:]}
    json.dump(res, open(cache, "w"))
    return res


def theorem_inventory(pid):
    """theorems stated in Properties/<pid>.v and the lemma count of everything it depends on"""
    vf = os.path.join(COQ, "theories", "Properties", pid + ".v")
    inv = {"file": "coq/theories/Properties/%s.v" % pid, "theorems": [], "obligations": 0, "assumptions": ""}
    if not os.path.exists(vf):
        return inv
    src = open(vf).read()
    inv["theorems"] = re.findall(r'^(?:Theorem|Corollary)\s+(\w+)', src, re.M)
    # dependency closure through coqdep's .d file
    deps = set()
    todo = ["theories/Properties/%s.v" % pid]
    while todo:
        f = todo.pop()
        if f in deps:
            continue
        deps.add(f)
        d = os.path.join(COQ, "." + os.path.basename(f) + ".d") if False else None
        try:
            body = open(os.path.join(COQ, f)).read()
        except OSError:
            continue
        for m in re.finditer(r'From\s+(Strcase|StrcaseGen)\s+Require\s+(?:Import\s+|Export\s+)?([^.]*)\.', body):
            root = "theories" if m.group(1) == "Strcase" else "gen"
            for name in m.group(2).split():
                cand = os.path.join(root, name.replace(".", "/") + ".v")
                if os.path.exists(os.path.join(COQ, cand)):
                    todo.append(cand)
    n = 0
    for f in deps:
        try:
            body = open(os.path.join(COQ, f)).read()
        except OSError:
            continue
        n += len(re.findall(r'^\s*(?:Theorem|Lemma|Corollary|Example|Fact|Remark)\s+\w+', body, re.M))
    inv["obligations"] = n
    inv["dep_files"] = sorted(deps)
    return inv


def assumptions_of(pid, coq_log):
    """Print Assumptions output recorded when Properties/<pid>.v was compiled (kept in a side file)"""
    p = os.path.join(BUILD, "assumptions", pid + ".txt")
    if os.path.exists(p):
        return open(p).read()
    return ""


def record_assumptions(coq_log):
    """coqc prints the Print Assumptions output while compiling Properties/*.v; since make
    interleaves outputs we re-run coqc on the (already compiled, cheap) property files when
    their .vo is newer than the recorded text."""
    os.makedirs(os.path.join(BUILD, "assumptions"), exist_ok=True)
    for vf in glob.glob(os.path.join(COQ, "theories", "Properties", "C*.v")):
        pid = os.path.basename(vf)[:-2]
        vo = vf + "o"
        out = os.path.join(BUILD, "assumptions", pid + ".txt")
        if not os.path.exists(vo):
            if os.path.exists(out):
                os.remove(out)
            continue
        if os.path.exists(out) and os.path.getmtime(out) >= os.path.getmtime(vo):
            continue
        rc, text, _ = run(["coqc", "-Q", "theories", "Strcase", "-Q", "gen", "StrcaseGen", "-o",
                           os.path.join(BUILD, "assumptions", pid + ".vo"),
                           os.path.join("theories", "Properties", pid + ".v")], cwd=COQ, timeout=900)
        open(out, "w").write(text if rc == 0 else "coqc failed:\n" + text)


def write_replay(pid, body):
    os.makedirs(REPLAYS, exist_ok=True)
    dig = hashlib.sha256(json.dumps(body, sort_keys=True).encode()).hexdigest()[:12]
    path = os.path.join(REPLAYS, "%s-%s.json" % (pid, dig))
    body = dict(body, property=pid, replay_cmd="./check replay " + path)
    json.dump(body, open(path, "w"), indent=1)
    return path


def minimise(pid, viol, use_ref=False):
    """delta-debug a model/impl disagreement on a two-string case, preserving the disagreement
    (use_ref: the oracle is the harness's reference over the toolchain's orbits instead of Spec)"""
    case = viol.get("case", "")
    f = case.split("\t")
    if len(f) < 2 or f[0] not in FN_KINDS:
        return viol
    kind = FN_KINDS[f[0]]

    def disagree(fields):
        line = "\t".join(fields)
        try:
            obs = harness_replay(line)
            if use_ref:
                m = {"S": obs.get("ref") or None}
            else:
                m = vlib.model_on([line])[0]
        except Exception:
            return None
        spec = m.get("S")
        if spec is None:
            return None
        if obs["strcase"] != spec or obs["bytcase"] != spec:
            return {"case": line, "strcase": obs["strcase"], "bytcase": obs["bytcase"], "spec": spec}
        return None

    def hexbytes(h):
        return [] if h in ("-", "") else [h[i:i + 2] for i in range(0, len(h), 2)]

    def tohex(b):
        return "".join(b) if b else "-"

    cur = list(f)
    best = disagree(cur)
    if best is None:
        return viol
    budget = 400
    for argi in ([1, 2] if kind == "ss" else [1]):
        b = hexbytes(cur[argi])
        n = 2
        while len(b) >= 1 and budget > 0:
            chunk = max(1, len(b) // n)
            reduced = False
            for s in range(0, len(b), chunk):
                cand = b[:s] + b[s + chunk:]
                trial = list(cur)
                trial[argi] = tohex(cand)
                budget -= 1
                d = disagree(trial)
                if d is not None:
                    b, cur, best = cand, trial, d
                    n = max(n - 1, 2)
                    reduced = True
                    break
                if budget <= 0:
                    break
            if not reduced:
                if chunk == 1:
                    break
                n = min(len(b), n * 2)
    out = dict(viol)
    out.update(best)
    out["minimised_from"] = case
    return out


FN_KINDS = {}
for _fn in ["Compare", "EqualFold", "Index", "Contains", "LastIndex", "HasPrefix", "HasSuffix", "TrimPrefix",
            "TrimSuffix", "CutPrefix", "CutSuffix", "Count", "Cut", "IndexAny", "LastIndexAny", "ContainsAny"]:
    FN_KINDS[_fn] = "ss"
for _fn in ["IndexRune", "ContainsRune", "IndexByte", "LastIndexByte", "IndexByteASCII"]:
    FN_KINDS[_fn] = "sr"
for _fn in ["IndexNonASCII", "ContainsNonASCII"]:
    FN_KINDS[_fn] = "s"


# properties whose statement IS "the result equals this definition" (a disagreement with Spec / the scalar
# definition is an input on which the property fails); for the others a disagreement is a broken
# correspondence; for C05/C18 the theorems are about the effect summary, not about Spec
SPEC_DEFINES = {"C01", "C02", "C03", "C04", "C08", "C09", "C10", "C11", "C12", "C13", "C15"}
SPEC_IRRELEVANT = {"C05", "C18"}


def own_failure(pid, m):
    """is a model/implementation disagreement by itself an input on which property pid fails?"""
    obs = (str(m.get("strcase")), str(m.get("bytcase")))
    if pid == "C06" and any(o.startswith(("PANIC", "HANG", "FAULT")) for o in obs):
        return "panic / hang / fault"
    if pid == "C07" and obs[0] != obs[1]:
        return "parity"
    return None


def harness_replay(line):
    rc, out, _ = run([os.path.join(BUILD, "bin", "harness"), "-replay", line], timeout=60)
    d = {}
    for f in out.strip().split("\t"):
        if "=" in f:
            k, v = f.split("=", 1)
            d[k] = v
    if "strcase" not in d:
        raise Infra("replay failed: " + out)
    return d


def is_known(known, pid, v):
    for k in known.get("known", []):
        if k.get("property") == pid and k.get("case") == v.get("case"):
            return k
    return None


def evidence(pid, tier, seed, level, coverage, assumptions, wall, violations):
    os.makedirs(EVID, exist_ok=True)
    ev = {"property_id": pid, "tier": tier, "seed": seed, "level": level, "coverage": coverage,
          "assumptions": assumptions, "wall_s": round(wall, 2), "violations": violations}
    json.dump(ev, open(os.path.join(EVID, pid + ".json"), "w"), indent=1)


def check_property(pid, tier, seed):
    t0 = time.time()
    import extra  # property-specific phases (tables, kernels, configurations, allocation, races)
    st = build_all()
    record_assumptions(st.get("coq_log", ""))
    inv = theorem_inventory(pid)
    thm_v = "theories/Properties/%s.v" % pid
    proofs_ok = os.path.exists(os.path.join(COQ, thm_v)) and vo_up_to_date(thm_v)
    known = load_known()
    violations = []   # dicts with at least kind, case/detail
    diagnostics = []

    outdir = os.path.join(BUILD, "run", pid)
    search_tier = tier
    stats = run_harness(pid, search_tier, seed, outdir)
    ncases, mism, refdis = compare_with_model(outdir)
    if not proofs_ok and tier == "quick":
        # a proof obligation broke: when the quick search shows no failing input, look harder for one
        hot = [f for f in (stats.get("findings") or []) if f["kind"] not in ("infra",)]
        if not hot and not mism and hasattr(extra, "phase_" + pid):
            # the property-specific phase (configurations, machine-model predictions, ...) searches too
            hot = getattr(extra, "phase_" + pid)(tier, seed, st, stats)[1]
        if not hot and not mism:
            search_tier = "thorough"
            log("%s: proof obligations do not check and the quick search found nothing; searching at thorough budget" % pid)
            quick_res = (stats, ncases, mism, refdis)
            try:
                stats = run_harness(pid, search_tier, seed, outdir, timeout=900)
                ncases, mism, refdis = compare_with_model(outdir)
            except Infra as e:
                # the deeper search did not finish inside its budget: the verdict rests on the quick search
                log("%s: thorough search abandoned (%s)" % (pid, str(e)[:200]))
                search_tier = "quick (the thorough search exceeded its 900 s budget)"
                stats, ncases, mism, refdis = quick_res
                run_harness(pid, "quick", seed, outdir)
    # when the table facts that tie Spec's CaseFold (regenerated from the repository's tables) to the toolchain's
    # folding orbits no longer check, Spec is no longer the authority on fold-equality: the reference over the
    # toolchain's orbits is, and only a case on which the CODE departs from it is a failing input
    tables_broken = (not proofs_ok) and any("FoldFacts" in str(x) for x in st["coq_failed"])
    corr_break = None
    for m in mism:
        if pid in SPEC_IRRELEVANT:
            diagnostics.append(dict(m, kind="implementation != Spec (not what this property's theorems are about)"))
            continue
        if own_failure(pid, m):
            violations.append(dict(m, kind=own_failure(pid, m)))
            continue
        if pid not in SPEC_DEFINES:
            # the property is not "the result equals Spec": a disagreement with Spec is a broken correspondence
            # (the model the theorems are about is no longer what the code does), not an input on which THIS
            # property fails; it is reported as such unless a failing input of the property itself is found
            if corr_break is None or len(m["case"]) < len(corr_break["case"]):
                corr_break = m
            continue
        if tables_broken:
            if m.get("go_ref") and (m["strcase"] != m["go_ref"] or m["bytcase"] != m["go_ref"]):
                violations.append(dict(m, kind="implementation != reference over the toolchain's folding orbits "
                                               "(the table facts of the model no longer check)"))
            continue
        violations.append(dict(m, kind="implementation != Spec (extracted Coq model)"))
    for f in stats.get("findings") or []:
        if f["kind"] in ("relation", "hang", "fatal", "alloc", "race", "kernel", "config", "mutated", "copy", "table"):
            violations.append({"kind": f["kind"], "fn": f.get("fn"), "case": f.get("case"), "detail": f.get("detail"),
                               "strcase": f.get("strcase"), "bytcase": f.get("bytcase")})
        elif f["kind"] == "panic" and pid == "C06":
            violations.append({"kind": "panic", "fn": f.get("fn"), "case": f.get("case"), "detail": f.get("detail"),
                               "strcase": f.get("strcase"), "bytcase": f.get("bytcase")})
        elif f["kind"] == "parity" and pid == "C07":
            violations.append({"kind": "parity", "fn": f.get("fn"), "case": f.get("case"),
                               "strcase": f.get("strcase"), "bytcase": f.get("bytcase")})
    if tables_broken and pid in SPEC_DEFINES:
        for f in sorted(stats.get("findings") or [], key=lambda f: len(str(f.get("case")))):
            if f["kind"] == "ref-mismatch":
                violations.append({"kind": "implementation != reference over the toolchain's folding orbits "
                                           "(the table facts of the model no longer check)",
                                   "fn": f.get("fn"), "case": f.get("case"), "strcase": f.get("strcase"),
                                   "bytcase": f.get("bytcase"), "detail": "want " + str(f.get("want"))})
    for f in stats.get("findings") or []:
        if f["kind"] == "infra":
            raise Infra("harness: " + str(f.get("detail")))
    for r in refdis:
        diagnostics.append(r)
    extra_cov = {}
    if hasattr(extra, "phase_" + pid):
        ev2, viol2 = getattr(extra, "phase_" + pid)(tier, seed, st, stats)
        extra_cov.update(ev2)
        violations.extend(viol2)
    if stats.get("_rc") not in (0, 3):
        raise Infra("harness exited with %s: %s" % (stats.get("_rc"), stats.get("_out")))

    # de-duplicate, minimise, classify against the known-findings file
    seen, uniq = set(), []
    for v in violations:
        key = (v.get("kind"), v.get("case"), v.get("detail"))
        if key not in seen:
            seen.add(key)
            uniq.append(v)
    reported, known_hits = [], []
    for v in uniq:
        k = is_known(known, pid, v)
        if k:
            known_hits.append(k)
            continue
        reported.append(v)
    if reported and reported[0].get("kind", "").startswith("implementation != reference over the toolchain") and reported[0].get("case"):
        reported[0] = minimise(pid, reported[0], use_ref=True)
        if "minimised_from" in reported[0]:
            reported[0]["go_ref"] = reported[0].pop("spec", None)
            reported[0].pop("impl_model", None)
    if reported and reported[0].get("kind", "").startswith("implementation != Spec"):
        reported[0] = minimise(pid, reported[0])
        k = is_known(known, pid, reported[0])
        if k:
            known_hits.append(k)
            reported.pop(0)

    for k in {json.dumps(k, sort_keys=True) for k in known_hits}:
        k = json.loads(k)
        print("KNOWN-FINDING: property=%s %s" % (pid, k.get("what", k.get("case"))))

    exit_code = 0
    if reported:
        v = reported[0]
        path = write_replay(pid, {"violation": v, "others": reported[1:20], "seed": seed, "tier": search_tier,
                                  "proofs_ok": proofs_ok, "coq_failed": st["coq_failed"][:5]})
        print("VIOLATION property=%s replay=%s" % (pid, path))
        exit_code = 1
    elif corr_break is not None and proofs_ok:
        path = write_replay(pid, {"violation": {"kind": "correspondence no longer checks",
                                                "correspondence": "extracted Spec / Impl models (coq/extract) vs both packages on the cases "
                                                                  "generated for this property: the model this property's theorems are about "
                                                                  "is no longer what the code computes",
                                                "example_disagreement": corr_break,
                                                "note": "the disagreement is NOT an input on which this property fails; the search found none"},
                                  "search": {"tier": search_tier, "evaluations": stats.get("evaluations"), "model_cases": ncases},
                                  "seed": seed})
        print("VIOLATION property=%s replay=%s no-failing-input-found" % (pid, path))
        exit_code = 1
    elif not proofs_ok:
        path = write_replay(pid, {"violation": {"kind": "proof obligation no longer checks",
                                                "theorem_file": inv["file"], "theorems": inv["theorems"],
                                                "coq_failed": st["coq_failed"][:10]},
                                  "search": {"tier": search_tier, "evaluations": stats.get("evaluations"),
                                             "model_cases": ncases}, "seed": seed})
        print("VIOLATION property=%s replay=%s no-failing-input-found" % (pid, path))
        exit_code = 1

    coqchk_res = None
    if tier == "thorough" and proofs_ok:
        coqchk_res = coqchk(pid)
        if coqchk_res["rc"] != 0:
            raise Infra("coqchk failed on Properties/%s: %s" % (pid, coqchk_res["tail"]))
        if coqchk_res["axioms"] not in ("<none>",):
            log("%s: coqchk reports axioms: %s" % (pid, coqchk_res["axioms"]))
    level = META[pid]["level"]
    assumptions_txt = assumptions_of(pid, "")
    cov = {
        "obligations": inv["obligations"],
        "discharged": inv["obligations"] if proofs_ok else 0,
        "checker_cmd": "make -C /verif/coq (coq_makefile; coqc 8.16.1, full .vo build) ; theorems in " + inv["file"],
        "trusted_base": TRUSTED_COMMON + TRUSTED_EXTRA.get(pid, []) + ["Print Assumptions: " + (" ".join(assumptions_txt.split())[:1500] or "n/a")],
        "theorems": inv["theorems"],
        "proofs_checked": proofs_ok,
        **supporting_theorems(pid),
        **({"coqchk": coqchk_res} if coqchk_res else {}),
        "evaluations": stats.get("evaluations", 0),
        "distinct_nontrivial": stats.get("distinct_nontrivial", 0),
        "distinct": stats.get("distinct", 0),
        "rule": "cases from generator G (harness/gen.go, props.go, rel.go), all randomness from VERIF_SEED; a case is "
                "distinct by its (function, arguments) line; non-trivial = non-empty haystack and a result other than "
                "the no-match default (-1 / 0 / false / unchanged)",
        "model_cases": ncases,
        "traces_validated_against_impl": ncases,
        "model_mismatches": len(mism),
        "machinery_diagnostics": diagnostics[:10],
        "per_function": stats.get("per_function"),
        "distribution": stats.get("distribution"),
        "samples": stats.get("samples") or ["(none)"],
        "notes": stats.get("notes"),
        "hooks_internal_strategies": st.get("internals"),
        "build_times_s": st.get("times"),
        "explanation": META[pid].get("explanation", "theorems in %s checked by coqc over the model regenerated from /repo; "
                                      "model tied to the code by the correspondence run described under rule" % inv["file"]),
    }
    if not proofs_ok:
        # schema: a proof-level record needs discharged >= 1; fall back to the generic keys
        cov["discharged_count"] = cov.pop("discharged")
    cov.update(extra_cov)
    evidence(pid, tier, seed, level, cov,
             ["see DESIGN.md section 7 (trusted base)"] + ([] if st.get("internals") else
              ["internal strategy hooks did not build: exported API only"]),
             time.time() - t0, len(reported) + (0 if proofs_ok else 1))
    if diagnostics:
        log("%s: %d machinery diagnostics (model/reference disagreements that are not violations), e.g. %s"
            % (pid, len(diagnostics), json.dumps(diagnostics[0])[:300]))
    return exit_code


def do_replay(path):
    body = json.load(open(path))
    v = body.get("violation", {})
    print(json.dumps(v, indent=1))
    case = v.get("case") or (v.get("example_disagreement") or {}).get("case")
    if v.get("arm64_sim"):
        a = v["arm64_sim"]
        rc, out, _ = run([sys.executable, os.path.join(VERIF, "tools", "arm64sim.py"),
                          os.path.join(vlib.REPO, "internal", "bytealg", a["file"]), a["s"] or "", str(a["c"]), str(a["align"]),
                          a.get("entry", ""), str(a.get("junk", 0))], timeout=120)
        print("arm64 interpreter on internal/bytealg/%s, %s(s, %d), s at address = %d mod 32: %s" % (a["file"], a.get("entry"), a["c"], a["align"], out.strip()))
        return 0
    if case and v.get("isa_probe"):
        # a call that executes an instruction of a feature the flags report absent: run it again under the probe
        build_all()
        import isaprobe
        hits, info = isaprobe.probe(os.path.join(BUILD, "bin", "harness"), [case], v.get("godebug"), v["isa_probe"])
        print("instruction-set probe under GODEBUG=%s: %d instruction(s) of the absent feature executed" % (v.get("godebug"), len(hits)))
        for h in hits:
            print("  %s  in %s  <- %s" % (h["insn"], h["where"], h["frames"]))
        if not info.get("available"):
            print("  (probe unavailable: %s)" % info.get("reason"))
        return 0
    if case and case.split("\t")[0] in FN_KINDS:
        build_all()
        m = vlib.model_on([case])[0]
        try:
            obs = harness_replay(case)
            print("implementation: strcase=%s bytcase=%s | extracted Spec=%s | Go reference=%s"
                  % (obs.get("strcase"), obs.get("bytcase"), m.get("S"), obs.get("ref")))
        except Infra as e:
            # the call does not return: the process running it died (stack overflow, fault, ...)
            print("implementation: the process executing this call died | extracted Spec=%s\n%s" % (m.get("S"), str(e)[-1500:]))
    elif case and case.startswith("k."):
        # a kernel case: both entry points, under the GODEBUG setting the violation names (if any)
        build_all()
        env = dict(os.environ)
        if v.get("godebug"):
            env["GODEBUG"] = v["godebug"]
        binary = os.path.join(BUILD, "bin", "harness")
        if v.get("goarch") == "386":
            binary = vlib.build_variant("386", {"GOARCH": "386"})
        rc, out, _ = run([binary, "-replay", case], env=env, timeout=60)
        m = vlib.model_on([case, "x." + case[2:]])
        print("kernel (GOARCH=%s GODEBUG=%s): %s | scalar definition (extracted Spec)=%s | x86 machine model on the translated assembly: %s"
              % (v.get("goarch", "amd64"), v.get("godebug", ""), out.strip(), m[0].get("S"), m[1].get("I")))
    return 0


def main(argv):
    if not argv:
        print(__doc__)
        return 2
    tier = os.environ.get("VERIF_TIER", "quick")
    seed = int(os.environ.get("VERIF_SEED", "1") or "1")
    args = list(argv)
    if "--tier" in args:
        i = args.index("--tier")
        tier = args[i + 1]
        del args[i:i + 2]
    try:
        if args[0] == "setup":
            st = build_all()
            record_assumptions("")
            if not st["coq_ok"]:
                sys.stderr.write("setup: coq build failed:\n%s\n" % "\n".join(st["coq_failed"]))
                sys.stderr.write(st["coq_log"][-3000:])
                return 2
            print("setup ok", json.dumps(st["times"]))
            return 0
        if args[0] == "replay":
            return do_replay(args[1])
        if args[0] in PROPS:
            return check_property(args[0], tier, seed)
        sys.stderr.write("unknown command %s\n" % args[0])
        return 2
    except Infra as e:
        sys.stderr.write("INFRASTRUCTURE ERROR: %s\n" % e)
        return 2
    except Exception:
        # a defect of this machinery, never a verdict about the library: exit 2, not 1
        import traceback
        sys.stderr.write("INFRASTRUCTURE ERROR (unexpected exception in the check driver):\n" + traceback.format_exc())
        return 2
