"""extra — property-specific phases beyond the common correspondence run.
Each phase_<id>(tier, seed, build_status, harness_stats) returns (coverage_dict, violations_list)."""
import os, json, re, sys
from vlib import *  # noqa
import vlib


def read_cases(path):
    d = {}
    order = []
    if not os.path.exists(path):
        return d, order
    for l in open(path):
        f = l.rstrip("\n").split("\t")
        if "=" not in f:
            continue
        k = f.index("=")
        key = "\t".join(f[:k])
        obs = (f[k + 1], f[k + 2] if len(f) > k + 2 else "")
        d.setdefault(key, []).append(obs)
        order.append(key)
    return d, order


def phase_C13(tier, seed, st, stats):
    """the x86 machine model (X86.v) run on the instruction lists translated from the .s files, against what the
    real kernels returned on the same arguments: ties translator T2 and the machine model to the CPU.  The
    interpreter is run at six placements (page start, odd address, flush against the end of a page, three bytes
    before it, starting seven bytes before a page end, crossing one), with the surrounding memory all 0x00, all
    0xff and all equal to the needle, with and without AVX2 / POPCNT, through both entry points."""
    base, order = read_cases(os.path.join(BUILD, "run", "C13", "cases.tsv"))
    cap_len = 320 if tier == "quick" else 1200
    cap_n = 2500 if tier == "quick" else 12000
    picked, seen = [], set()
    for key in order:
        if not key.startswith("k.") or key in seen:
            continue
        seen.add(key)
        f = key.split("\t")
        if len(f[1]) > 2 * cap_len:
            continue
        picked.append(key)
    # stratified by length (16-byte buckets) and kernel, round-robin, rather than the beginning of the run
    if len(picked) > cap_n:
        groups = {}
        for k in picked:
            f = k.split("\t")
            n = 0 if f[1] == "-" else len(f[1]) // 2
            groups.setdefault((f[0], n // 16), []).append(k)
        for g in groups.values():
            step = max(1, len(g) // 200)
            g[:] = g[::step]
        picked, i = [], 0
        while len(picked) < cap_n and any(groups.values()):
            for key in sorted(groups):
                if groups[key]:
                    picked.append(groups[key].pop(0))
    outs = vlib.model_on(["x." + k[2:] for k in picked])
    specs = vlib.model_on(picked)
    # which feature combination the real kernels ran under (the harness notes what they see)
    real = "a1p1"
    for n in (stats.get("notes") or []):
        m = re.search(r"HasAVX2=(\w+) HasPOPCNT=(\w+)", str(n))
        if m:
            real = "a%dp%d" % (m.group(1) == "true", m.group(2) == "true")
    godebug = {"a1p1": "", "a0p1": "cpu.avx2=off", "a1p0": "cpu.popcnt=off", "a0p0": "cpu.avx2=off,cpu.popcnt=off"}
    viol, bad, predicted, confirmed = [], 0, 0, 0
    lens = {}
    for key, m, sp in zip(picked, outs, specs):
        got = dict(f.split("=", 1) for f in (m.get("I") or "").split(";") if "=" in f)
        want = {o[0] for o in base[key]}
        spec = sp.get("S")
        f = key.split("\t")
        n = 0 if f[1] == "-" else len(f[1]) // 2
        lens[min(n // 16, 20)] = lens.get(min(n // 16, 20), 0) + 1
        # (1) under the features the real run had, the machine model must return what the kernel returned
        if len(want) != 1 or got.get(real) not in want:
            bad += 1
            if len(viol) < 5:
                viol.append({"kind": "x86 machine model on the translated assembly != the kernel's observed result "
                                     "(correspondence of X86.v / tools/asm2prog.py with the CPU no longer checks)",
                             "case": key, "detail": "kernel returned %s, machine model (%s) %s" % (sorted(want), real, got.get(real))})
            continue
        # (2) under the other feature combinations the machine model predicts what the kernel would return there:
        #     a prediction that differs from the scalar definition is confirmed by running the real kernel under
        #     that GODEBUG setting; confirmed = a failing input of the property under that configuration
        for combo, val in got.items():
            if combo == real or val == "GO" or val == spec:
                continue
            predicted += 1
            if confirmed >= 3:
                continue
            env = dict(os.environ, GODEBUG=godebug[combo])
            rc, out, _ = run([os.path.join(BUILD, "bin", "harness"), "-replay", key], env=env, timeout=60)
            obs = dict(x.split("=", 1) for x in out.strip().split("\t") if "=" in x)
            if obs.get("strcase") != spec or obs.get("bytcase") != spec:
                confirmed += 1
                viol.append({"kind": "kernel", "fn": f[0], "case": key, "godebug": godebug[combo],
                             "detail": "under GODEBUG=%s the kernel returns %s/%s, the scalar definition is %s (predicted by the "
                                       "machine model run on the translated assembly: %s)" % (godebug[combo], obs.get("strcase"), obs.get("bytcase"), spec, val)})
            else:
                bad += 1
                if len(viol) < 5:
                    viol.append({"kind": "x86 machine model on the translated assembly != the kernel's observed result "
                                         "(correspondence of X86.v / tools/asm2prog.py with the CPU no longer checks)",
                                 "case": key, "detail": "under GODEBUG=%s the kernel returns %s, the machine model %s" % (godebug[combo], obs.get("strcase"), val)})
    # (3) the portable Go bodies (what architectures without assembly run): the same kernel property with the
    #     harness built for GOARCH=386, its sweep findings and its cases against the scalar definitions
    outdir386 = os.path.join(BUILD, "run", "C13_goarch386")
    s386 = vlib.run_harness("C13", "quick", seed, outdir386, binary=vlib.build_variant("386", {"GOARCH": "386"}))
    n386, mism386, _ = vlib.compare_with_model(outdir386)
    for fnd in (s386.get("findings") or []):
        if fnd["kind"] == "kernel":
            viol.append({"kind": "kernel", "fn": fnd.get("fn"), "case": fnd.get("case"), "goarch": "386",
                         "detail": "portable Go body (GOARCH=386): %s" % fnd.get("detail")})
    for mm in mism386[:5]:
        viol.append(dict(mm, goarch="386", kind="implementation != Spec (extracted Coq model) — portable Go bodies, GOARCH=386"))
    portable = {"cases_against_the_scalar_definitions": n386, "mismatches": len(mism386),
                "sweep_evaluations": s386.get("evaluations"), "sweep_findings": len(s386.get("findings") or [])}
    cov = {"portable_go_bodies_goarch386": portable,
           "x86_model_validation": {"kernel_cases_replayed_in_the_machine_model": len(picked), "disagreements": bad,
                                    "features_of_the_real_run": real,
                                    "predictions_for_other_feature_sets_differing_from_the_definition": predicted,
                                    "of_which_confirmed_on_the_real_kernel": confirmed,
                                    "length_histogram_16B_buckets": {str(k): v for k, v in sorted(lens.items())},
                                    "placements": 6, "surroundings": 3, "feature_combinations": 4, "entry_points": 2}}
    c2, v2 = arm64_count_phase(tier)
    cov.update(c2)
    viol.extend(v2)
    return cov, viol


def arm64_count_phase(tier="quick"):
    """the arm64 kernels cannot be executed here; tools/arm64sim.py interprets the text of the .s files (read from the
    working tree) and compares both entry points of each kernel with its definition over lengths x all 32 alignments x
    contents x needles x what surrounds the argument.  A search, not a proof; instructions it does not know make it
    step aside (recorded, no verdict)."""
    from concurrent.futures import ThreadPoolExecutor
    cov, viol = {"arm64_kernel_simulation": {}}, []
    files = ("count_go122_arm64.s", "count_arm64.s", "indexbyte_arm64.s", "index_non_ascii_arm64.s")

    def one(f):
        path = os.path.join(vlib.REPO, "internal", "bytealg", f)
        if not os.path.exists(path):
            return f, None, ""
        cmd = [sys.executable, os.path.join(VERIF, "tools", "arm64sim.py"), path] + (["--quick"] if tier == "quick" else [])
        rc, out, _ = run(cmd, timeout=1800)
        return f, rc, out

    with ThreadPoolExecutor(max_workers=4) as ex:
        results = list(ex.map(one, files))
    for f, rc, out in results:
        if rc is None:
            cov["arm64_kernel_simulation"][f] = {"status": "file not found"}
            continue
        last = out.strip().split("\n")[-1] if out.strip() else ""
        info = {"status": {0: "agrees with the definition", 1: "disagrees", 3: "not simulated"}.get(rc, "simulator failed (rc %s)" % rc),
                "summary": last[:300]}
        cov["arm64_kernel_simulation"][f] = info
        if rc == 1:
            for l in out.split("\n"):
                m = re.match(r"MISMATCH (\w+)\(s=([0-9a-f]*), c=(\d+)\) with the data at address = (\d+) mod 32: kernel (.+?), definition (-?\d+) \(bytes around the argument: (\d+)\)", l)
                if m:
                    viol.append({"kind": "kernel", "fn": "arm64 " + m.group(1),
                                 "arm64_sim": {"file": f, "entry": m.group(1), "s": m.group(2), "c": int(m.group(3)), "align": int(m.group(4)),
                                               "junk": int(m.group(7))},
                                 "detail": "internal/bytealg/%s interpreted by tools/arm64sim.py: %s(s, %d) with s = %d bytes %s... placed at an address = %d mod 32 "
                                           "returns %s, the definition gives %s (the arm64 kernel cannot be executed in this sandbox; the interpreter runs the text of the file)"
                                           % (f, m.group(1), int(m.group(3)), len(m.group(2)) // 2, m.group(2)[:24], int(m.group(4)), m.group(5), m.group(6))})
                    break
    return cov, viol


def isa_phase(binary=None):
    """which instructions a call executes when the feature flags say "absent": GODEBUG leaves the processor as it is,
    so an unguarded AVX2 / POPCNT instruction computes the right answer here and is SIGILL on a processor without it"""
    import isaprobe
    cov, viol = {}, []
    lines = isaprobe.probe_cases()
    cov["instruction_set_probe"] = {}
    for godebug, prefixes, what in (("cpu.avx2=off", "v", "AVX/AVX2"), ("cpu.popcnt=off", "popcnt", "POPCNT")):
        hits, info = isaprobe.probe(binary or os.path.join(BUILD, "bin", "harness"), lines, godebug, prefixes)
        cov["instruction_set_probe"][godebug] = info
        per_case = {}
        for h in hits:
            per_case.setdefault(h["case"], []).append(h)
        for case, hs in per_case.items():
            h = hs[0]
            viol.append({"kind": "config:isa", "case": case, "godebug": godebug, "isa_probe": prefixes,
                         "detail": "configuration %s (the CPU-feature flag is false): the call executes the %s instruction `%s` in %s "
                                   "(%d such instructions reached; call chain: %s) - a processor without the feature raises SIGILL "
                                   "where this one returns a result" % (godebug, what, h["insn"].split(":", 1)[-1].strip(), h["where"],
                                                                        len(hs), h["frames"])})
    return cov, viol


def phase_C06(tier, seed, st, stats):
    """returning normally includes not dying of an illegal instruction on a processor without AVX2 / POPCNT"""
    return isa_phase()


def phase_C14(tier, seed, st, stats):
    """run the same corpus under every configuration and compare case by case with the default run"""
    base_dir = os.path.join(BUILD, "run", "C14")
    base, order = read_cases(os.path.join(base_dir, "cases.tsv"))
    configs = [
        ("avx2off", os.path.join(BUILD, "bin", "harness"), {"GODEBUG": "cpu.avx2=off"}),
        ("popcntoff", os.path.join(BUILD, "bin", "harness"), {"GODEBUG": "cpu.popcnt=off"}),
        ("avx2off+popcntoff", os.path.join(BUILD, "bin", "harness"), {"GODEBUG": "cpu.avx2=off,cpu.popcnt=off"}),
        ("goamd64v3", vlib.build_variant("v3", {"GOAMD64": "v3"}), {}),
        ("goarch386", vlib.build_variant("386", {"GOARCH": "386"}), {}),
    ]
    # a second toolchain, where one is installed: another runtime (its internal/bytealg is what the linknamed native
    # Index runs), another compiler; results must not change
    other_go = "/opt/veriftools/go1.26.8/bin/go"
    other_bin = None
    if os.path.exists(other_go):
        try:
            other_bin = vlib.build_variant("go1268", {}, gobin=other_go)
            configs.append(("go1.26.8", other_bin, {}))
            configs.append(("go1.26.8+avx2off", other_bin, {"GODEBUG": "cpu.avx2=off"}))
        except Infra:
            other_bin = None
    viol = []
    cov = {"configurations": {"default": {"cases": len(order), "notes": stats.get("notes")}}}
    for name, binary, env in configs:
        outdir = os.path.join(BUILD, "run", "C14_" + name)
        s2 = vlib.run_harness("C14", tier, seed, outdir, extra_env=env, binary=binary)
        other, order2 = read_cases(os.path.join(outdir, "cases.tsv"))
        ndiff = 0
        first = None
        for key in base:
            if key not in other:
                ndiff += 1
                first = first or (key, base[key], None)
            elif other[key] != base[key]:
                ndiff += 1
                first = first or (key, base[key], other[key])
        missing = [k for k in other if k not in base]
        cov["configurations"][name] = {"cases": len(order2), "differences": ndiff, "extra_cases": len(missing),
                                       "notes": s2.get("notes"), "findings": len(s2.get("findings") or [])}
        if first:
            viol.append({"kind": "config", "case": first[0],
                         "detail": "configuration %s: observations %s; default configuration: %s" % (name, first[2], first[1])})
        for f in (s2.get("findings") or []):
            if f["kind"] in ("config", "kernel", "relation", "hang", "mutated", "copy"):
                viol.append({"kind": "config:" + f["kind"], "fn": f.get("fn"), "case": f.get("case"),
                             "detail": "configuration %s: %s" % (name, f.get("detail"))})
            elif f["kind"] in ("ref-mismatch", "parity", "panic"):
                # decided against the extracted Spec below
                pass
        # the 386 run takes the portable Go kernels: compare with the model too (different code is executed)
        if name in ("goarch386", "popcntoff"):
            n, mism, refdis = vlib.compare_with_model(outdir)
            cov["configurations"][name]["model_cases"] = n
            cov["configurations"][name]["model_mismatches"] = len(mism)
            for m in mism[:5]:
                viol.append(dict(m, kind="config: implementation != Spec under configuration " + name))
    c2, v2 = isa_phase()
    cov.update(c2)
    viol.extend(v2)
    if other_bin:
        c3, v3 = isa_phase(other_bin)
        cov["instruction_set_probe_go1.26.8"] = c3["instruction_set_probe"]
        viol.extend(v3)
    return cov, viol


def phase_C05(tier, seed, st, stats):
    """malloc measurement under the other CPU-feature configurations"""
    cov = {"configurations": {"default": {"evaluations": stats.get("evaluations"), "notes": stats.get("notes")}}}
    viol = []
    for name, env in (("avx2off", {"GODEBUG": "cpu.avx2=off"}), ("popcntoff", {"GODEBUG": "cpu.popcnt=off"})):
        outdir = os.path.join(BUILD, "run", "C05_" + name)
        s2 = vlib.run_harness("C05", tier, seed, outdir, extra_env=env)
        cov["configurations"][name] = {"evaluations": s2.get("evaluations"), "notes": s2.get("notes"),
                                       "findings": len(s2.get("findings") or [])}
        for f in (s2.get("findings") or []):
            if f["kind"] == "infra":
                raise Infra("harness: " + str(f.get("detail")))
            if f["kind"] in ("alloc", "copy"):
                viol.append({"kind": f["kind"], "fn": f.get("fn"), "case": f.get("case"),
                             "detail": "configuration %s: %s" % (name, f.get("detail"))})
    # informational only: the same measurement in a build with the second installed toolchain.  The property
    # quantifies over inputs and CPU-feature configurations of the repository's toolchain; what another standard
    # library allocates inside utf8.RuneCount is recorded, not judged.
    other_go = "/opt/veriftools/go1.26.8/bin/go"
    if os.path.exists(other_go):
        try:
            ob = vlib.build_variant("go1268", {}, gobin=other_go)
            outdir = os.path.join(BUILD, "run", "C05_go1.26.8")
            s3 = vlib.run_harness("C05", tier, seed, outdir, binary=ob)
            fs = [f for f in (s3.get("findings") or []) if f["kind"] in ("alloc", "copy")]
            cov["other_toolchain_go1.26.8_informational"] = {
                "evaluations": s3.get("evaluations"), "allocating_shapes": len(fs),
                "examples": ["%s: %s" % (f.get("fn"), str(f.get("detail"))[:160]) for f in fs[:4]],
                "note": "not a verdict: with go1.26.8 unicode/utf8.RuneCount converts its argument to a string (144 B for a 130-byte "
                        "needle), so bytcase.Count / Cut allocate once per call after a first match; the repository's toolchain does not"}
        except Exception as e:  # never lets the informational run decide or break the check
            cov["other_toolchain_go1.26.8_informational"] = {"error": str(e)[:300]}
    cov["effect_summary"] = effect_summary_stats()
    return cov, viol


def effect_summary_stats():
    p = os.path.join(COQ, "gen", "Effects.v")
    if not os.path.exists(p):
        return {}
    body = open(p).read()
    return {"functions": body.count('", (['), "alloc_sites": body.count('("alloc"'), "write_sites": body.count('("write"'),
            "external_calls": body.count('("ext"'), "dynamic_calls": body.count('("dyn"'), "asm_bodies": body.count('("asm"')}


def phase_C18(tier, seed, st, stats):
    """the same run under the race detector"""
    hdir = os.path.join(VERIF, "harness")
    hb = os.path.join(BUILD, "bin", "harness_race")
    env = dict(GOENV, CGO_ENABLED="1")
    with Lock(os.path.join(BUILD, ".lock")):
        rc, out, _ = run(["go", "build", "-race", "-tags", "verif,verif_internals", "-o", hb, "."], cwd=hdir, env=env, timeout=900)
        if rc != 0:
            rc, out, _ = run(["go", "build", "-race", "-tags", "verif", "-o", hb, "."], cwd=hdir, env=env, timeout=900)
            if rc != 0:
                raise Infra("race build failed:\n" + out[-3000:])
    outdir = os.path.join(BUILD, "run", "C18_race")
    s2 = vlib.run_harness("C18", tier, seed, outdir, binary=hb, extra_env={"GORACE": "halt_on_error=0 exitcode=66"})
    viol = []
    races = s2.get("_out", "").count("WARNING: DATA RACE")
    if races or s2.get("_rc") == 66:
        viol.append({"kind": "race", "case": None, "detail": "race detector report (exit %s): %s" % (s2.get("_rc"), s2.get("_out", "")[-1500:])})
    elif s2.get("_rc") not in (0,):
        raise Infra("race run exited with %s: %s" % (s2.get("_rc"), s2.get("_out")))
    for f in (s2.get("findings") or []):
        if f["kind"] in ("relation", "mutated", "copy"):
            viol.append({"kind": f["kind"], "fn": f.get("fn"), "case": f.get("case"), "detail": "under -race: %s" % f.get("detail")})
    cov = {"race_run": {"evaluations": s2.get("evaluations"), "notes": s2.get("notes"), "race_reports": races},
           "effect_summary": effect_summary_stats()}
    return cov, viol
