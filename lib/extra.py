"""extra — property-specific phases beyond the common correspondence run.
Each phase_<id>(tier, seed, build_status, harness_stats) returns (coverage_dict, violations_list)."""
from vlib import *  # noqa
