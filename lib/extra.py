"""extra — property-specific phases beyond the common correspondence run.
Each phase_<id>(tier, seed, build_status, harness_stats) returns (coverage_dict, violations_list)."""
import os, json
from vlib import *  # noqa
import vlib


def read_cases(path):
    d = {}
    order = []
    if not os.path.exists(path):
        return d, order
    for l in open(path):
        f = l.rstrip("\n").split("\t")
        if "=" not in f:
            continue
        k = f.index("=")
        key = "\t".join(f[:k])
        obs = (f[k + 1], f[k + 2] if len(f) > k + 2 else "")
        d.setdefault(key, []).append(obs)
        order.append(key)
    return d, order


def phase_C14(tier, seed, st, stats):
    """run the same corpus under every configuration and compare case by case with the default run"""
    base_dir = os.path.join(BUILD, "run", "C14")
    base, order = read_cases(os.path.join(base_dir, "cases.tsv"))
    configs = [
        ("avx2off", os.path.join(BUILD, "bin", "harness"), {"GODEBUG": "cpu.avx2=off"}),
        ("popcntoff", os.path.join(BUILD, "bin", "harness"), {"GODEBUG": "cpu.popcnt=off"}),
        ("avx2off+popcntoff", os.path.join(BUILD, "bin", "harness"), {"GODEBUG": "cpu.avx2=off,cpu.popcnt=off"}),
        ("goamd64v3", vlib.build_variant("v3", {"GOAMD64": "v3"}), {}),
        ("goarch386", vlib.build_variant("386", {"GOARCH": "386"}), {}),
    ]
    viol = []
    cov = {"configurations": {"default": {"cases": len(order), "notes": stats.get("notes")}}}
    for name, binary, env in configs:
        outdir = os.path.join(BUILD, "run", "C14_" + name)
        s2 = vlib.run_harness("C14", tier, seed, outdir, extra_env=env, binary=binary)
        other, order2 = read_cases(os.path.join(outdir, "cases.tsv"))
        ndiff = 0
        first = None
        for key in base:
            if key not in other:
                ndiff += 1
                first = first or (key, base[key], None)
            elif other[key] != base[key]:
                ndiff += 1
                first = first or (key, base[key], other[key])
        missing = [k for k in other if k not in base]
        cov["configurations"][name] = {"cases": len(order2), "differences": ndiff, "extra_cases": len(missing),
                                       "notes": s2.get("notes"), "findings": len(s2.get("findings") or [])}
        if first:
            viol.append({"kind": "config", "case": first[0],
                         "detail": "configuration %s: observations %s; default configuration: %s" % (name, first[2], first[1])})
        for f in (s2.get("findings") or []):
            if f["kind"] in ("config", "kernel", "relation", "hang", "mutated", "copy"):
                viol.append({"kind": "config:" + f["kind"], "fn": f.get("fn"), "case": f.get("case"),
                             "detail": "configuration %s: %s" % (name, f.get("detail"))})
            elif f["kind"] in ("ref-mismatch", "parity", "panic"):
                # decided against the extracted Spec below
                pass
        # the 386 run takes the portable Go kernels: compare with the model too (different code is executed)
        if name in ("goarch386", "popcntoff"):
            n, mism, refdis = vlib.compare_with_model(outdir)
            cov["configurations"][name]["model_cases"] = n
            cov["configurations"][name]["model_mismatches"] = len(mism)
            for m in mism[:5]:
                viol.append(dict(m, kind="config: implementation != Spec under configuration " + name))
    return cov, viol
