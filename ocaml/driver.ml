(* driver.ml — runs the extracted Coq model on the cases the Go harness
   wrote.  Input: one case per line, TAB separated:  fn  arg...  (strings as
   hex, "-" for empty; integers in decimal).  Everything after a field "="
   is ignored (the implementation's observations).  Output: one line per
   input line:  S=<spec result>  [I=<impl-model result>]. *)
open Model

open Util

let spec fn (a : string array) : string =
  let s i = bytes_of_hex a.(i) in
  let n i = z_of_int (int_of_string a.(i)) in
  match fn with
  | "Compare" -> si (s_compare (s 0) (s 1))
  | "EqualFold" -> sb (s_equal_fold (s 0) (s 1))
  | "Index" -> si (s_index (s 0) (s 1))
  | "Contains" -> sb (s_contains (s 0) (s 1))
  | "LastIndex" -> si (s_last_index (s 0) (s 1))
  | "HasPrefix" -> sb (s_has_prefix (s 0) (s 1))
  | "HasSuffix" -> sb (s_has_suffix (s 0) (s 1))
  | "TrimPrefix" -> sl (s_trim_prefix (s 0) (s 1))
  | "TrimSuffix" -> sl (s_trim_suffix (s 0) (s 1))
  | "CutPrefix" -> let (r, f) = s_cut_prefix (s 0) (s 1) in sl r ^ ":" ^ sb f
  | "CutSuffix" -> let (r, f) = s_cut_suffix (s 0) (s 1) in sl r ^ ":" ^ sb f
  | "Count" -> si (s_count (s 0) (s 1))
  | "Cut" -> let ((b, af), f) = s_cut (s 0) (s 1) in sl b ^ ":" ^ sl af ^ ":" ^ sb f
  | "IndexRune" -> si (s_index_rune (s 0) (n 1))
  | "ContainsRune" -> sb (s_contains_rune (s 0) (n 1))
  | "IndexAny" -> si (s_index_any (s 0) (s 1))
  | "LastIndexAny" -> si (s_last_index_any (s 0) (s 1))
  | "ContainsAny" -> sb (s_contains_any (s 0) (s 1))
  | "IndexByte" -> si (s_index_byte (s 0) (n 1))
  | "LastIndexByte" -> si (s_last_index_byte (s 0) (n 1))
  | "IndexByteASCII" -> si (s_index_byte_ascii (s 0) (n 1))
  | "IndexNonASCII" -> si (s_index_non_ascii (s 0))
  | "ContainsNonASCII" -> sb (s_contains_non_ascii (s 0))
  (* model validation: utf8 *)
  | "u.decode" -> let (r, w) = m_decode (s 0) in si r ^ ":" ^ string_of_int (int_of_nat w)
  | "u.decode_last" -> let (r, w) = m_decode_last (s 0) in si r ^ ":" ^ string_of_int (int_of_nat w)
  | "u.rune_len" -> si (m_rune_len (n 0))
  | "u.valid_rune" -> sb (m_valid_rune (n 0))
  | "u.encode" -> szl (m_encode (n 0))
  | "u.rune_count" -> string_of_int (int_of_nat (m_rune_count (s 0)))
  | "u.valid" -> sb (m_valid_utf8 (s 0))
  (* model validation: tables *)
  | "t.case_fold" -> si (m_case_fold (n 0))
  | "t.fold_map" -> (match m_fold_map (n 0) with None -> "nil" | Some l -> szl l)
  | "t.fold_map_excl" -> let (x, y) = m_fold_map_excl (n 0) in si x ^ "," ^ si y
  | "t.to_upper_lower" -> let ((u, l), f) = m_to_upper_lower (n 0) in si u ^ "," ^ si l ^ "," ^ sb f
  | "t.lower_str" -> si (m_lower_str (n 0))
  | "t.lower_byt" -> si (m_lower_byt (n 0))
  (* scalar kernel definitions *)
  | "k.index_byte" -> si (s_k_index_byte (s 0) (n 1))
  | "k.count" -> si (s_k_count (s 0) (n 1))
  | "k.index_non_ascii" -> si (s_index_non_ascii (s 0))
  | _ -> "?"

let () =
  let buf = Buffer.create 65536 in
  (try
    while true do
      let line = input_line stdin in
      let fields = String.split_on_char '\t' line in
      (match fields with
       | [] | [""] -> Buffer.add_string buf "\n"
       | fn :: rest ->
         let rec take acc = function
           | [] -> List.rev acc
           | "=" :: _ -> List.rev acc
           | x :: r -> take (x :: acc) r in
         let args = Array.of_list (take [] rest) in
         let r = (try spec fn args with e -> "EXN:" ^ Printexc.to_string e) in
         Buffer.add_string buf "S=";
         Buffer.add_string buf r;
         (match Impl_dispatch.impl fn args with
          | Some ir -> Buffer.add_string buf "\tI="; Buffer.add_string buf ir
          | None -> ());
         Buffer.add_char buf '\n');
      if Buffer.length buf > 60000 then begin
        print_string (Buffer.contents buf); Buffer.clear buf
      end
    done
  with End_of_file -> ());
  print_string (Buffer.contents buf)
