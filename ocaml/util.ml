(* util.ml — conversions between OCaml ints/strings and the extracted datatypes *)
open Model

let rec pos_of_int n : positive =
  if n = 1 then XH
  else if n land 1 = 0 then XO (pos_of_int (n lsr 1))
  else XI (pos_of_int (n lsr 1))

let z_of_int n : z =
  if n = 0 then Z0 else if n > 0 then Zpos (pos_of_int n) else Zneg (pos_of_int (-n))

let rec int_of_pos (p : positive) : int =
  match p with XH -> 1 | XO q -> 2 * int_of_pos q | XI q -> 2 * int_of_pos q + 1

let int_of_z (x : z) : int =
  match x with Z0 -> 0 | Zpos p -> int_of_pos p | Zneg p -> - (int_of_pos p)

let rec int_of_nat (n : nat) : int = match n with O -> 0 | S m -> 1 + int_of_nat m

(* small cache of byte values *)
let zbyte = Array.init 256 z_of_int

let hexval c =
  match c with
  | '0'..'9' -> Char.code c - 48
  | 'a'..'f' -> Char.code c - 87
  | 'A'..'F' -> Char.code c - 55
  | _ -> failwith "bad hex"

let bytes_of_hex (h : string) : z list =
  if h = "-" then [] else begin
    let n = String.length h / 2 in
    let rec go i acc =
      if i < 0 then acc
      else go (i - 1) (zbyte.(hexval h.[2*i] * 16 + hexval h.[2*i+1]) :: acc) in
    go (n - 1) []
  end

let sb b = if b then "1" else "0"
let si z = string_of_int (int_of_z z)
let sl (lo, hi) =
  let lo = int_of_z lo and hi = int_of_z hi in
  if lo = hi then "e" else Printf.sprintf "%d:%d" lo hi
let szl l = String.concat "," (List.map si l)

