(* impl_dispatch.ml — dispatch to the extracted structure-faithful models
   (Impl.v, Kernels.v).  Result: Some string when a model exists. *)
open Model
open Util

let res_z (r : z res) : string =
  match r with Ok v -> string_of_int (int_of_z v) | Panic -> "PANIC" | OutOfFuel -> "OUTOFFUEL"

let both a b = if a = b then a else a ^ "|" ^ b

let impl (fn : string) (a : string array) : string option =
  let s i = bytes_of_hex a.(i) in
  let n i = z_of_int (int_of_string a.(i)) in
  match fn with
  | "Compare" -> Some (both (res_z (i_compare_str (s 0) (s 1))) (res_z (i_compare_byt (s 0) (s 1))))
  | "EqualFold" ->
    let f r = match r with Ok v -> if int_of_z v = 0 then "1" else "0" | Panic -> "PANIC" | OutOfFuel -> "OUTOFFUEL" in
    Some (both (f (i_compare_str (s 0) (s 1))) (f (i_compare_byt (s 0) (s 1))))
  | "k.index_byte" -> Some (string_of_int (int_of_z (i_index_byte_generic (s 0) (n 1))))
  | "k.count" ->
    Some (both (string_of_int (int_of_z (i_count_generic (s 0) (n 1))))
               (string_of_int (int_of_z (i_count_simd (s 0) (n 1)))))
  | "k.index_non_ascii" -> Some (string_of_int (int_of_z (i_index_non_ascii_generic (s 0))))
  | _ -> None
