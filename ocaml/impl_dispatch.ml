(* impl_dispatch.ml — dispatch to the extracted structure-faithful models
   (Impl.v, Kernels.v).  Result: Some string when a model exists. *)
open Model
open Util

let res_z (r : z res) : string =
  match r with Ok v -> string_of_int (int_of_z v) | Panic -> "PANIC" | OutOfFuel -> "OUTOFFUEL"

let both a b = if a = b then a else a ^ "|" ^ b

let res_map (f : 'a -> string) (r : 'a res) : string =
  match r with Ok v -> f v | Panic -> "PANIC" | OutOfFuel -> "OUTOFFUEL"
let sbool b = if b then "1" else "0"
let sslice (lo, hi) =
  let lo = int_of_z lo and hi = int_of_z hi in
  if lo = hi then "e" else Printf.sprintf "%d:%d" lo hi


(* ---- the x86 machine model on the translated assembly ----
   every placement / surrounding / feature combination must give the same Done result *)
let x86 (k_str : z -> z list -> z -> z -> bool -> bool -> z -> nat -> xres)
        (k_byt : z -> z list -> z -> z -> bool -> bool -> z -> nat -> xres)
        (s : z list) (c : int) : string =
  let len = List.length s in
  let fuel = x_nat_of_z (z_of_int (200 + 8 * len)) in
  let page = 4096 in
  let places = [ 2 * page; 2 * page + 1; 3 * page - len; 3 * page - len - 3; 3 * page - 7; 2 * page + 4081 ] in
  (* one result per CPU-feature combination (every placement, surrounding and entry point must agree on it);
     printed as  a1p1=..;a0p1=..;a1p0=..;a0p0=..   (a = AVX2, p = POPCNT) *)
  let one (avx2, popcnt) =
    let results = ref [] in
    List.iter (fun a ->
      List.iter (fun junk ->
        List.iter (fun k ->
          let r = k (z_of_int a) s (z_of_int junk) (z_of_int 0x5eadbeefcafe) avx2 popcnt (z_of_int c) fuel in
          let str = match r with
            | XFault -> "FAULT"
            | XFuel -> "OUTOFFUEL"
            | XDelegated -> "GO"      (* tail call into the Go fallback (no POPCNT): that code is modelled in Kernels.v *)
            | XDone None -> "NORESULT"
            | XDone (Some v) -> string_of_int (int_of_z v) in
          if not (List.mem str !results) then results := str :: !results)
          [k_str; k_byt])
        [0; 255; c])
      places;
    match !results with
    | [r] -> r
    | l -> "DIFF(" ^ String.concat "," (List.rev l) ^ ")" in
  String.concat ";" (List.map (fun (nm, fl) -> nm ^ "=" ^ one fl)
    [("a1p1", (true, true)); ("a0p1", (false, true)); ("a1p0", (true, false)); ("a0p0", (false, false))])

let impl (fn : string) (a : string array) : string option =
  let s i = bytes_of_hex a.(i) in
  let n i = z_of_int (int_of_string a.(i)) in
  match fn with
  | "Compare" -> Some (both (res_z (i_compare_str (s 0) (s 1))) (res_z (i_compare_byt (s 0) (s 1))))
  | "EqualFold" ->
    let f r = match r with Ok v -> if int_of_z v = 0 then "1" else "0" | Panic -> "PANIC" | OutOfFuel -> "OUTOFFUEL" in
    Some (both (f (i_compare_str (s 0) (s 1))) (f (i_compare_byt (s 0) (s 1))))
  | "HasPrefix" ->
    let f r = res_map (fun (m, _) -> sbool m) r in
    Some (both (f (i_has_prefix_unicode_str (s 0) (s 1))) (f (i_has_prefix_unicode_byt (s 0) (s 1))))
  | "TrimPrefix" ->
    Some (both (res_map sslice (i_trim_prefix_str (s 0) (s 1))) (res_map sslice (i_trim_prefix_byt (s 0) (s 1))))
  | "CutPrefix" ->
    let f r = res_map (fun (sl, fl) -> sslice sl ^ ":" ^ sbool fl) r in
    Some (both (f (i_cut_prefix_str (s 0) (s 1))) (f (i_cut_prefix_byt (s 0) (s 1))))
  | "HasSuffix" ->
    let f r = res_map (fun (m, _) -> sbool m) r in
    Some (both (f (i_has_suffix_unicode_str (s 0) (s 1))) (f (i_has_suffix_unicode_byt (s 0) (s 1))))
  | "TrimSuffix" ->
    Some (both (res_map sslice (i_trim_suffix_str (s 0) (s 1))) (res_map sslice (i_trim_suffix_byt (s 0) (s 1))))
  | "CutSuffix" ->
    let f r = res_map (fun (sl, fl) -> sslice sl ^ ":" ^ sbool fl) r in
    Some (both (f (i_cut_suffix_str (s 0) (s 1))) (f (i_cut_suffix_byt (s 0) (s 1))))
  | "Count" -> Some (both (res_z (i_count_str (s 0) (s 1))) (res_z (i_count_byt (s 0) (s 1))))
  | "Cut" ->
    let f r = res_map (fun ((b, af), fl) -> sslice b ^ ":" ^ sslice af ^ ":" ^ sbool fl) r in
    Some (both (f (i_cut_str (s 0) (s 1))) (f (i_cut_byt (s 0) (s 1))))
  | "IndexByte" -> Some (both (res_z (i_IndexByte_a (s 0) (n 1))) (res_z (i_IndexByte_c (s 0) (n 1))))
  | "IndexByteASCII" -> Some (res_z (i_IndexByteASCII (s 0) (n 1)))
  | "LastIndexByte" -> Some (res_z (i_LastIndexByte (s 0) (n 1)))
  | "IndexRune" -> Some (both (res_z (i_IndexRune_a (s 0) (n 1))) (res_z (i_IndexRune_c (s 0) (n 1))))
  | "ContainsRune" ->
    let f r = res_map (fun v -> sbool (int_of_z v >= 0)) r in
    Some (both (f (i_IndexRune_a (s 0) (n 1))) (f (i_IndexRune_c (s 0) (n 1))))
  | "i.indexRuneCase" ->
    let r = both (both (res_z (i_index_rune_case_a (s 0) (n 1))) (res_z (i_index_rune_case_b (s 0) (n 1)))) (res_z (i_index_rune_case_c (s 0) (n 1))) in
    Some (r ^ "|" ^ r)
  | "i.indexRune" ->
    let f r = res_map (fun (i, sz) -> if int_of_z i < 0 then "-1:1" else string_of_int (int_of_z i) ^ ":" ^ string_of_int (int_of_z sz)) r in
    let r = both (f (i_index_rune_pair_a (s 0) (n 1))) (f (i_index_rune_pair_c (s 0) (n 1))) in
    Some (r ^ "|" ^ r)
  | "i.indexByte" ->
    let f r = res_map (fun (i, sz) -> if int_of_z i < 0 then "-1:1" else string_of_int (int_of_z i) ^ ":" ^ string_of_int (int_of_z sz)) r in
    let r = both (f (i_index_byte_pair_a (s 0) (n 1))) (f (i_index_byte_pair_c (s 0) (n 1))) in
    Some (r ^ "|" ^ r)
  | "i.lastIndexRune" ->
    Some (res_z (i_last_index_rune_str (s 0) (n 1)) ^ "|" ^ res_z (i_last_index_rune_byt (s 0) (n 1)))
  | "Index" ->
    Some (both (both (res_z (i_Index_str_a (s 0) (s 1))) (res_z (i_Index_str_c (s 0) (s 1))))
               (both (res_z (i_Index_byt_a (s 0) (s 1))) (res_z (i_Index_byt_c (s 0) (s 1)))))
  | "Contains" ->
    let f r = res_map (fun v -> sbool (int_of_z v >= 0)) r in
    Some (both (f (i_Index_str_a (s 0) (s 1))) (f (i_Index_byt_a (s 0) (s 1))))
  | "i.bruteForce" -> Some (res_z (i_brute_str (s 0) (s 1)) ^ "|" ^ res_z (i_brute_byt (s 0) (s 1)))
  | "i.rabinKarp" -> Some (res_z (i_rk_str (s 0) (s 1)) ^ "|" ^ res_z (i_rk_byt (s 0) (s 1)))
  | "LastIndex" -> Some (both (res_z (i_LastIndex_str (s 0) (s 1))) (res_z (i_LastIndex_byt (s 0) (s 1))))
  | "IndexAny" -> Some (both (res_z (i_IndexAny_a (s 0) (s 1))) (res_z (i_IndexAny_c (s 0) (s 1))))
  | "LastIndexAny" -> Some (both (res_z (i_LastIndexAny_a (s 0) (s 1))) (res_z (i_LastIndexAny_c (s 0) (s 1))))
  | "ContainsAny" ->
    let f r = res_map (fun v -> sbool (int_of_z v >= 0)) r in
    Some (both (f (i_IndexAny_a (s 0) (s 1))) (f (i_IndexAny_c (s 0) (s 1))))
  | "i.rabinKarpRev" -> let r = res_z (i_rkrev_str (s 0) (s 1)) in Some (r ^ "|" ^ r)
  (* unexported strategies (hooks under verif_internals): "str-result|byt-result" *)
  | "i.hasPrefixUnicode" ->
    let f r = res_map (fun (m, e) -> sbool m ^ ":" ^ sbool e) r in
    Some (f (i_has_prefix_unicode_str (s 0) (s 1)) ^ "|" ^ f (i_has_prefix_unicode_byt (s 0) (s 1)))
  | "i.containsKelvin" -> Some (let r = sbool (i_contains_kelvin (s 0)) in r ^ "|" ^ r)
  | "k.index_byte" -> Some (string_of_int (int_of_z (i_index_byte_generic (s 0) (n 1))))
  | "k.count" ->
    Some (both (string_of_int (int_of_z (i_count_generic (s 0) (n 1))))
               (string_of_int (int_of_z (i_count_simd (s 0) (n 1)))))
  | "k.index_non_ascii" -> Some (string_of_int (int_of_z (i_index_non_ascii_generic (s 0))))
  | "x.index_non_ascii" -> Some (x86 x_index_non_ascii_str x_index_non_ascii_byt (s 0) 0)
  | "x.index_byte" -> Some (x86 x_index_byte_str x_index_byte_byt (s 0) (int_of_string a.(1)))
  | "x.count" -> Some (x86 x_count_str x_count_byt (s 0) (int_of_string a.(1)))
  | _ -> None
