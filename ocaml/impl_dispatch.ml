(* impl_dispatch.ml — dispatch to the extracted structure-faithful model (Impl) *)
open Model
open Util

let impl (fn : string) (a : string array) : string option =
  ignore a; match fn with
  | _ -> None
